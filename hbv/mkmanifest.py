"""Regenerates /verif/MANIFEST.json from hbv/props.py (single source of truth)."""
import json
import os
import subprocess
import sys

HERE = os.path.dirname(os.path.abspath(__file__))
sys.path.insert(0, HERE)
from props import PROPS, NOT_APPLICABLE, LEVEL_TEXT  # noqa: E402

VERIF = os.path.dirname(HERE)


def main():
    hook_commits = [l.split()[0] for l in subprocess.run(["git", "-C", "/repo", "log", "--format=%h %s"], stdout=subprocess.PIPE, text=True).stdout.splitlines() if "verification hook" in l.lower() or "hashbrown_verif" in l]
    checks = []
    for pid in sorted(PROPS):
        c = PROPS[pid]
        lt = LEVEL_TEXT[pid]
        checks.append({
            "property_id": pid,
            "quick_cmd": "./check %s quick" % pid,
            "thorough_cmd": "./check %s thorough" % pid,
            "evidence_file": "/verif/evidence/%s.json" % pid,
            "replay_cmd_template": "./check --replay {path}",
            "engine": "hbsim",
            "level_claimed": {"category": c["level"], "text": lt["text"], "design_ref": lt["design_ref"]},
            "level_note": lt["note"],
            "technique": lt["technique"],
        })
    m = {
        "version": 1,
        "setup_cmd": "./check setup",
        "hooks": {
            "guard": "--cfg hashbrown_verif",
            "enable": "shadow manifest /verif/shadow/hashbrown (lib path = /repo/src/lib.rs) whose build.rs emits cargo:rustc-cfg=hashbrown_verif; HBSIM_GROUP=generic additionally emits cfg(miri) for the hashbrown crate only to select the portable scanner",
            "baseline_off_cmd": "cd /repo && cargo test --workspace --no-fail-fast --offline",
            "source_commits": hook_commits,
            "add_only": True,
        },
        "engines": [{
            "name": "hbsim",
            "path": "/verif/sim",
            "serves_properties": sorted(PROPS),
            "kind_free_text": "deterministic single-process simulator: seeded workload generator, simulator-owned hash/eq/clone/drop/allocator/closure/rayon-bridge/serde seams with fault injection, reference models, structural dump invariants; python orchestrator /verif/check (workers, crash containment, minimiser, replay, evidence)",
        }],
        "checks": checks,
        "notes": "All checks rebuild hbsim from /repo's working tree (sources compiled in place). Exit 0 held / 1 violation / 2 harness error. KNOWN_FINDINGS lists known: and fixed: entries. See DESIGN.md.",
        "not_applicable": [{"property_id": k, "reason": v} for k, v in sorted(NOT_APPLICABLE.items()) if k not in PROPS],
    }
    with open(os.path.join(VERIF, "MANIFEST.json"), "w") as f:
        json.dump(m, f, indent=1)
    print("MANIFEST.json: %d checks, %d not applicable" % (len(checks), len(m["not_applicable"])))


if __name__ == "__main__":
    main()
