#!/usr/bin/env python3
"""Benign-change controls: edits that keep every property; no check may raise an alarm on them.
usage: benign.py [ids...]   (results into benign/<id>/result.json)"""
import json
import os
import subprocess
import sys
import time

HERE = os.path.dirname(os.path.abspath(__file__))
VERIF = os.path.dirname(HERE)
sys.path.insert(0, HERE)
from props import PROPS  # noqa: E402

WT = os.environ.get("SENS_WT", "/tmp/sens_wt2")
OUT = os.environ.get("SENS_OUT", "/tmp/sens_out2")


def sh(cmd, cwd=None, env=None, timeout=None):
    p = subprocess.run(cmd, cwd=cwd, env=env, shell=isinstance(cmd, str), stdout=subprocess.PIPE, stderr=subprocess.STDOUT, text=True, timeout=timeout)
    return p.returncode, p.stdout


def main():
    ids = sys.argv[1:] or sorted(os.listdir(os.path.join(VERIF, "benign")))
    if not os.path.isdir(WT):
        sh(["git", "-C", "/repo", "worktree", "add", "--detach", WT, "HEAD"])
    for bid in ids:
        d = os.path.join(VERIF, "benign", bid)
        sh(["git", "checkout", "--", "."], cwd=WT)
        rc, out = sh(["git", "apply", os.path.join(d, "patch.diff")], cwd=WT)
        if rc != 0:
            print(bid, "patch does not apply", out)
            continue
        env = dict(os.environ, CARGO_NET_OFFLINE="true")
        rc, out = sh("cargo test --workspace --no-fail-fast --offline 2>&1 | grep -E '^test result|FAILED|^error' | head", cwd=WT, env=env, timeout=3600)
        suite_ok = "FAILED" not in out and "error" not in out and out.count("test result: ok") >= 5
        res = {"id": bid, "suite_passes": suite_ok, "checks": {}}
        env = dict(os.environ, HBSIM_REPO=WT, HBSIM_OUT=OUT)
        for c in sorted(PROPS):
            t0 = time.time()
            rc, out = sh([os.path.join(VERIF, "check"), c, "quick"], cwd=VERIF, env=env, timeout=7200)
            lines = [l for l in out.splitlines() if l.startswith(("VIOLATION", "violation", "HARNESS", "OK"))]
            res["checks"][c] = {"exit": rc, "seconds": round(time.time() - t0, 1), "lines": lines[:3]}
            print(bid, c, "exit", rc, ("| " + lines[0][:200]) if rc != 0 and lines else "", flush=True)
        with open(os.path.join(d, "result.json"), "w") as f:
            json.dump(res, f, indent=1)
        sh(["git", "checkout", "--", "."], cwd=WT)


if __name__ == "__main__":
    main()
