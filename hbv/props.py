"""Per-property check configuration: builds, run counts, level, required probes."""

# (variant, runs) per tier. Run counts are fixed (not time-boxed) so that the explored set is a
# function of VERIF_SEED alone; wall-clock caps only truncate (reported, never a failure).
PROPS = {
    "C01": {
        "level": "exploration",
        "quick": [("A", 200000), ("B", 20000)],
        "thorough": [("A", 8000000), ("B", 1000000), ("C", 1000000)],
        "probes": ["tombstone_created", "rehash_in_place", "resize_up", "shrink", "shrink_to_singleton", "small_table", "one_group_table", "multi_group_table", "tombstone_reused", "insert_at_full_load", "probe_wrap", "first_bucket_full", "last_bucket_full", "insert_unique_unchecked", "index_op", "entry_or_default", "from_array"],
        "rule": "one evaluation = one simulated run: a seeded history of 10-400 HashMap operations over 3 map slots under a per-slot hash plan, every return value compared with an association-list model and the table dumped and swept after every step; non-trivial = the run contains at least one structural event (tombstone creation/reuse, in-place rehash, resize, shrink); distinct = distinct signatures (sequence of operation kinds + structural events), counted with a k-minimum-values sketch (exact below 4096)",
    },
    "C02": {
        "level": "exploration",
        "quick": [("A", 150000)],
        "thorough": [("A", 4000000), ("C", 1000000), ("D", 200000), ("E", 32), ("B", 500000)],
        "probes": ["leak_iter", "leak_drain", "leak_extract", "leak_entry", "leak_into_iter", "early_drop_drain", "early_drop_extract", "early_drop_into_iter", "small_table", "multi_group_table", "rehash_in_place", "serde_lying_hint"],
        "rule": "one evaluation = one simulated run of mixed operations in which iterators, drains, extract_ifs and entries are advanced k steps and then dropped or mem::forget-ten (cancellation faults F9/F10), with lying size hints (F13), colliding hash plans, exact-alignment-only allocator placement, element layouts 8..208 bytes and align up to 64; oracles: ledger (double drop, dead reference), red-zone canaries, quarantine poison, layout match, dump invariants I1-I4 and allocator balance after every call; non-trivial/distinct as for C01",
    },
    "C03": {
        "level": "exploration",
        "quick": [("A", 150000)],
        "thorough": [("A", 5000000), ("D", 100000), ("E", 16)],
        "probes": ["early_drop_drain", "early_drop_extract", "early_drop_into_iter", "clone_from_same_buckets", "clone_from_diff_buckets", "clone_from_src_empty", "clone_from_dst_tombstones", "shrink", "shrink_to_singleton", "rehash_in_place"],
        "rule": "one evaluation = one simulated run ending in or containing removal, overwrite, clear, retain/extract_if, drain, into_iter/into_keys/into_values with sampled cut points, shrink, clone_from into an occupied target and drop; oracle: every element serial dropped exactly once or moved out once, every block returned once with its original layout, nothing live at the end; non-trivial/distinct as for C01",
    },
    "C04": {
        "level": "fault_enumeration",
        "quick": [("A", 30000)],
        "thorough": [("A", 400000), ("C", 100000), ("D", 20000), ("E", 16), ("B", 50000)],
        "probes": ["panic_in_resize", "panic_in_rehash_in_place", "panic_in_clone", "panic_in_drop", "panic_in_pred", "panic_in_eq", "panic_in_hash_lookup"],
        "rule": "one evaluation = one execution of a scenario; each seeded scenario is first executed fault-free to count the callback invocations of every class inside every operation, then re-executed with the k-th invocation of one class panicking inside one target operation, for every k (thorough) or k in {1, last, 2 random} (quick); non-trivial = a fault fired or a structural event occurred; distinct = distinct signatures (operation kinds + structural events + fired fault class), k-minimum-values sketch",
    },
    "C05": {
        "level": "exploration",
        "quick": [("A", 100000)],
        "thorough": [("A", 3000000), ("C", 300000), ("D", 100000), ("E", 32), ("B", 300000)],
        "probes": ["byz_hash_answer", "byz_eq_answer", "rehash_in_place", "resize_up", "tombstone_created"],
        "rule": "one evaluation = one simulated run under a byzantine hash plan (fresh value per call / periodic flips / epoch changes) and/or a byzantine equality (random, always true, always false, asymmetric) for the whole run; only the safety subset of the oracles is active (ledger, canaries, invariants I1-I4, len()==iter().count(), per-operation callback cap as divergence verdict, everything dropped exactly once at the end); non-trivial/distinct as for C01",
    },
    "C06": {
        "level": "exploration",
        "quick": [("A", 150000), ("B", 20000)],
        "thorough": [("A", 5000000), ("B", 500000), ("D", 60000), ("E", 16)],
        "probes": ["reinsert_same_slot", "iter_hash_multi", "dup_elements", "zero_sized", "entry_at_full_load", "tombstone_created", "rehash_in_place", "tombstone_reused"],
        "rule": "one evaluation = one simulated run of HashTable operations (find, find_mut, find_entry, entry, insert_unique, OccupiedEntry::remove then VacantEntry::insert, iter_hash(_mut), retain, extract_if, drain, clear, reserve, shrink, get_many_mut, clone) with caller-supplied hashes drawn from the hash plans (collisions in position bits, tag bits, both; duplicates of identical ids; zero-sized elements) against a multiset model; non-trivial/distinct as for C01",
    },
    "C07": {
        "level": "exploration",
        "quick": [("A", 100000)],
        "thorough": [("A", 3000000)],
        "probes": ["set_smaller_drives_larger", "set_larger_first", "sub_assign_retain_path", "sub_assign_remove_path", "tombstone_created", "small_table", "multi_group_table"],
        "rule": "one evaluation = one simulated run over three HashSet slots built by independent histories under independently drawn hash plans (equal sets with different layouts, capacities, tombstones): union/intersection/difference/symmetric_difference iterators driven by next and fold with size_hint read at every step and clones taken mid-way, is_subset/is_superset/is_disjoint/== both ways, the four operators and the four assigning operators, insert/replace/take/get_or_insert/get_or_insert_with (incl. a lying constructor)/remove/entry, against BTreeSet algebra on ids and instance identity by serial; non-trivial/distinct as for C01",
    },
    "C08": {
        "level": "exploration",
        "quick": [("A", 150000)],
        "thorough": [("A", 5000000)],
        "probes": ["insert_at_full_load", "shrink", "shrink_to_singleton", "reserve_rehash", "tombstone_created"],
        "rule": "one evaluation = one simulated run mixing with_capacity/new/default, reserve, fill-to-capacity (zero allocator calls allowed), clear, drain, shrink_to/shrink_to_fit and tombstone-creating removals, with the allocator as measuring instrument (calls and bytes per operation); non-trivial/distinct as for C01",
    },
    "C09": {
        "level": "exploration",
        "quick": [("A", 150000), ("B", 20000)],
        "thorough": [("A", 5000000), ("B", 500000), ("D", 60000), ("E", 16)],
        "probes": ["iter_clone_mid", "iter_fold_switch", "iter_default", "iter_after_exhaustion", "small_table", "one_group_table", "multi_group_table", "tombstone_created", "probe_wrap", "first_bucket_full", "last_bucket_full", "drain_fold"],
        "rule": "one evaluation = one simulated run in which, in every reached state, iter/iter_mut/keys/values/values_mut/into_iter/into_keys/into_values/drain are driven by a plan (a x next, optional clone, then next/fold/for_each/count/last/nth, then calls after exhaustion) with size_hint/len checked at every step; non-trivial/distinct as for C01",
    },
    "C10": {
        "level": "exploration",
        "quick": [("A", 150000)],
        "thorough": [("A", 5000000), ("D", 60000), ("B", 500000), ("E", 16)],
        "probes": ["early_drop_drain", "early_drop_extract", "tombstone_created", "multi_group_table", "small_table", "extract_size_hint", "drain_fold"],
        "rule": "one evaluation = one simulated run with retain / extract_if predicates answering true on an arbitrary PRNG-drawn subset (and mutating values), extract_if and drain dropped after k steps for sampled k; oracle: predicate called exactly once per element, kept/yielded sets exact, unvisited elements stay, drain leaves an empty usable collection holding the same block; non-trivial/distinct as for C01",
    },
    "C11": {
        "level": "exploration",
        "quick": [("A", 100000)],
        "thorough": [("A", 3000000)],
        "probes": ["clone_from_same_buckets", "clone_from_diff_buckets", "clone_from_src_empty", "clone_from_dst_tombstones"],
        "rule": "one evaluation = one simulated run over three slots with independently seeded hash plans: clone, clone_from along all structural paths, == both ways, then further mutation of either side; non-trivial/distinct as for C01",
    },
    "C12": {
        "level": "fault_enumeration",
        "quick": [("A", 150000)],
        "thorough": [("A", 5000000), ("D", 60000)],
        "probes": ["refused_alloc", "capacity_overflow", "try_reserve_ok", "try_reserve_giant"],
        "rule": "one evaluation = one simulated run in which try_reserve is called in every reached state with amounts from {small, around 7/8*2^k, isize::MAX, usize::MAX, usize::MAX/size_of<T> +-1} under allocator refusal modes (refuse the 1st request / everything / above a byte limit); an operation makes at most one allocator request, so refusing request j=1 enumerates the fault positions; non-trivial/distinct as for C01",
    },
    "C13": {
        "level": "exploration",
        "quick": [("A", 3000), ("B", 400)],
        "thorough": [("A", 30000), ("B", 3000)],
        "probes": ["rehash_in_place", "tombstone_created", "tombstone_reused", "churn_long", "lookup_absent_saturated"],
        "rule": "one evaluation = one long churn history (2 000-100 000 operations) of insert/remove/lookup with live size <= n (n in 1..200), removal order random/FIFO/LIFO/middle, no explicit reservation, under Seq / clustered / all-colliding / mixed plans; oracle at every step: allocation_size() <= 8 x allocation of a fresh with_capacity(peak live size), invariant I4, per-operation callback cap and CPU watchdog (termination); non-trivial/distinct as for C01",
    },
    "C14": {
        "level": "exploration",
        "quick": [("A", 150000)],
        "thorough": [("A", 5000000), ("B", 500000), ("E", 16)],
        "probes": ["entry_at_full_load", "entry_on_singleton", "entry_tombstone_saturated", "vacant_dropped", "rehash_in_place", "entry_or_default"],
        "rule": "one evaluation = one simulated run in which method chains of length <= 3 on entry, entry_ref, raw_entry_mut (from_key, from_key_hashed_nocheck, from_hash), raw_entry and rustc_entry are applied to present and absent keys in states steered to capacity()==len(), tombstone saturation and the unallocated singleton; the observation log of each chain must equal that of the same chain on the model; non-trivial/distinct as for C01",
    },
    "C15": {
        "level": "exploration",
        "quick": [("A", 100000)],
        "thorough": [("A", 3000000), ("B", 300000), ("E", 24)],
        "probes": ["get_many_dup", "get_many_absent", "get_many_all_present", "get_many_unchecked"],
        "rule": "one evaluation = one simulated run issuing get_many_mut / get_many_key_value_mut with N = 0..4 requests including duplicates and absent keys, under plans colliding in position and tag bits, and (one third of the runs) an equality that matches several entries; oracle: request order, right entry per request (serial), pairwise distinct addresses, panic iff two requests resolve to one entry, sentinel writes land in the requested entries; non-trivial/distinct as for C01",
    },
    "C18": {
        "level": "exploration",
        "quick": [("A", 15000)],
        "thorough": [("A", 1000000)],
        "differential": "B",
        "probes": ["match_tag_false_positive", "tombstone_created", "rehash_in_place", "small_table", "one_group_table", "multi_group_table"],
        "rule": "one evaluation = one execution of a scenario under one scanner back-end; every scenario is generated and executed under the SSE2 16-byte scanner, then the identical recorded scenario is replayed under the portable 8-byte scanner and the transcripts of content-semantic observables (lengths and sorted contents after every step; return values are compared with the same reference model in both builds) must be identical; in both builds, after every step, every scanner primitive is compared with its byte-by-byte definition on aligned and unaligned windows of the reached control bytes for all tags present, their low-bit neighbours and 0x00/0x01/0x7e/0x7f; non-trivial/distinct as for C01",
    },
    "C20": {
        "level": "exploration",
        "quick": [("A", 40000)],
        "thorough": [("A", 2000000)],
        "probes": ["serde_round_trip", "serde_err_mid", "serde_lying_hint", "serde_dup_key"],
        "rule": "one evaluation = one simulated run in which maps and sets reached by a history are serialised with serde_json and read back (cleanly, with short reads, and through a reader that errors or ends at byte k), and in which maps/sets are deserialised (Deserialize and, for sets, deserialize_in_place) from a simulator-owned stream with repeated keys, a claimed length from None/0 to usize::MAX and an error at element k; oracle: round trip equals the original (contents and == both ways), last value per repeated key, an error is reported and leaves no element or block live, the largest allocator request of a deserialisation is below 2 MiB whatever the claimed length; non-trivial/distinct as for C01",
    },
    "C19": {
        "level": "exploration",
        # rayon-core's crossbeam-epoch is rejected by Stacked Borrows as soon as the (one-thread) pool is built;
        # that is outside hashbrown. Leaks are the ledger's job: the global pool outlives main.
        "miriflags": "-Zmiri-tree-borrows -Zmiri-ignore-leaks",
        "quick": [("A", 150000)],
        "thorough": [("A", 3000000), ("C", 300000), ("D", 100000), ("E", 32)],
        "probes": ["par_split", "par_steal", "par_depth3", "par_early_stop", "par_consumer_panic", "multi_group_table", "small_table"],
        "rule": "one evaluation = one simulated run in which the rayon adaptors of a map, set or table reached by a history (tables of 4..4096 buckets, any occupancy) are driven through the simulator-owned bridge_unindexed under a recorded decision list: split-or-fold at every node (free form, or a rayon-like split budget for pool sizes 1..64 with budget reset on a 'steal'), the order in which pending subtrees run, consumers that take everything, stop after k items (take_any, find_any, any, all) or panic at item k; oracle: delivered multiset = stored multiset (or a sub-multiset without duplicates of exactly the requested size), par_iter_mut visits each element once, par_drain leaves an empty usable collection holding the same block, undelivered elements dropped exactly once also under a consumer panic, parallel set operations / predicates / par_eq / par_extend / from_par_iter equal their sequential counterparts; distinct = distinct signatures incl. the split-tree shape digest",
    },
}

DEFAULT_SEED = 20261002

ASSUMPTIONS = [
    "rustc/std, the system allocator underneath SimAlloc, the reference models and oracles in hbsim are trusted",
    "x86-64 little-endian host only; the portable scanner is exercised through cfg(miri) selection on the same host",
    "sampling: a clean batch is evidence, not proof",
    "hashbrown sources are compiled in place from the repository working tree through a shadow manifest; edits to the repository's Cargo.toml are not seen",
]

COMPONENTS = {
    "real": ["all of <repo>/src (map, set, table, raw, control, scopeguard, raw_entry, rustc_entry, rayon and serde glue)", "rayon iterator adaptors and consumers", "serde / serde_json"],
    "stubbed": ["BuildHasher/Hasher (hash plans)", "Eq/Equivalent", "element types (ledger-registered plain data)", "allocator (SimAlloc over the system allocator)", "rayon bridge_unindexed / scheduler", "serde Deserializer data source"],
}

NA_TECH = "not yet built in this session; will be claimed when its check exists"
NOT_APPLICABLE = {
    "C16": "Send/Sync markers, variance and borrow lifetimes are decided entirely by the type checker on generic obligations: there is no execution, schedule or fault for a deterministic simulator to drive or observe (DESIGN section 11)",
    "C17": "pure integer arithmetic whose stated quantifier is an exhaustive enumeration of capacities x sizes x alignments: no schedule, clock, fault or interleaving; seeded simulation would only be input generation under another name (DESIGN section 11)",
}
for _p in []:
    NOT_APPLICABLE.setdefault(_p, NA_TECH)

_TB = "trusts rustc/std, the system allocator under SimAlloc, the reference model and oracles in hbsim; x86-64 only; sampling, not enumeration"
LEVEL_TEXT = {
    "C01": {
        "text": "seeded search over histories x hash plans x capacity histories in the fault-free configuration of the simulator; every return value is compared with an association-list model and the table is dumped, swept and allocator-balanced after every step. Sampling evidence, not proof; the right level because the property is a conformance statement over unbounded histories whose hard cases (tombstones, in-place rehash, small-table fix-up) only arise under controlled hash plans",
        "design_ref": "DESIGN.md section 9 C01",
        "note": _TB,
        "technique": "deterministic simulation (fault-free configuration): seeded histories under simulator-owned hash plans vs reference model",
    },
    "C04": {
        "text": "fault enumeration: every seeded scenario is executed fault-free to count callback invocations per class inside every operation, then re-executed with the k-th Hash/Eq/Clone/Drop/predicate/source-iterator callback panicking inside a target operation, for every k (thorough) or a sample of k (quick); after the unwind the dump invariants, ledger, allocator balance, len()==yielded==found, survivor-explained and grow-unchanged oracles run, the model is re-synchronised and the run continues under full checking. Enumerates crash points exactly for the sampled (state, operation) pairs; states are sampled",
        "design_ref": "DESIGN.md section 9 C04, section 10",
        "note": _TB + "; Into-conversion panics (F6) are only reachable through entry_ref",
        "technique": "deterministic simulation with fault injection: panic at the k-th callback invocation, enumerated over k by exact re-execution",
    },
    "C02": {
        "text": "seeded search over client programs with cancellation faults (drop or mem::forget of any iterator/drain/extract_if/entry after k steps), lying size hints and adversarial allocator placement, across element layouts; decided by universal safety monitors (ledger of live elements, red zones, poison, quarantine, layout match) plus the structural invariants that the unsafe core's preconditions rest on, after every call. Exploration: out-of-bounds reads that change nothing observable are only visible to the sanitizer builds",
        "design_ref": "DESIGN.md section 9 C02",
        "note": _TB + "; out-of-bounds reads without observable effect need the ASan/Miri builds (thorough, when available)",
        "technique": "deterministic simulation with fault injection: cancellation points (early drop / mem::forget), lying size hints, allocator placement",
    },
    "C03": {
        "text": "seeded search over histories with every kind of element exit (removal, overwrite, clear, retain, extract_if, drain, owning iterators cut at sampled points, shrink, clone_from into occupied targets, drop) against an exact ledger of element instances and allocator blocks with layouts; balance is checked after every step and at the end of the run",
        "design_ref": "DESIGN.md section 9 C03",
        "note": _TB,
        "technique": "deterministic simulation: element/allocation ledger under cut-point (early drop) faults",
    },
    "C05": {
        "text": "seeded search over histories under byzantine Hash and Eq implementations (fresh pseudo-random answers per call, periodic flips, epoch changes, non-equivalence equalities); only the safety subset of the oracles is active: no double drop, no dead reference, canaries intact, structural invariants, len()==yielded, termination by callback cap and CPU watchdog, exact final drop balance",
        "design_ref": "DESIGN.md section 9 C05",
        "note": _TB,
        "technique": "deterministic simulation with fault injection: byzantine hash/equality answers drawn from the run's PRNG",
    },
    "C08": {
        "text": "seeded search over reachable states (occupied slots and tombstones) with the allocator seam as measuring instrument: the stated inequalities of the capacity contract are checked exactly as stated (no exact capacities), including zero allocator calls while filling spare capacity and shrink bounds against an actually constructed fresh with_capacity table",
        "design_ref": "DESIGN.md section 9 C08",
        "note": _TB + "; HashMap and HashTable worlds (HashSet is a HashMap<T, ()> and shares the code paths)",
        "technique": "deterministic simulation (fault-free configuration) with a counting allocator seam",
    },
    "C09": {
        "text": "seeded search over reachable occupancy patterns x iterator consumption plans (switch point from next() to fold/for_each/count/last/nth, clone at the switch point, calls after exhaustion) with size_hint/len compared with the true remaining count at every step, for all nine map iterators and their Default instances",
        "design_ref": "DESIGN.md section 9 C09",
        "note": _TB,
        "technique": "deterministic simulation (fault-free configuration plus early-drop cut points): iterator plans vs reference model",
    },
    "C10": {
        "text": "seeded search over reachable states x predicate subsets x early-drop points of extract_if and drain; the predicate's argument multiset, the kept/yielded sets, persistence of mutations and the allocator calls of drain are compared with the model",
        "design_ref": "DESIGN.md section 9 C10",
        "note": _TB,
        "technique": "deterministic simulation with cancellation faults (early drop at step k) and PRNG-drawn predicates",
    },
    "C11": {
        "text": "seeded search over ordered pairs of slot states built by independent histories under independently seeded hash plans: clone/clone_from along all structural paths with clone/drop accounting by serial, == in both directions against model equality, independence under later mutation",
        "design_ref": "DESIGN.md section 9 C11",
        "note": _TB,
        "technique": "deterministic simulation (fault-free configuration): pairs of slots with per-slot hash plans vs reference model",
    },
    "C12": {
        "text": "fault enumeration over allocator refusals: try_reserve makes at most one allocator request, so refusing request 1 (or everything, or anything above a byte limit) in every reached state with boundary amounts enumerates the fault space per state; decided by Result classification against the stated overflow band, layout validity at the seam, and bit-for-bit state equality (dump, len, capacity, blocks, drop count) after an error",
        "design_ref": "DESIGN.md section 9 C12",
        "note": _TB,
        "technique": "deterministic simulation with fault injection: allocator refusal of the j-th request / byte limit",
    },
    "C13": {
        "text": "bounded liveness and bounded memory over long seeded churn histories: at every step allocation_size() must stay within 8x the allocation of a fresh table for the peak live size, I4 (an EMPTY stopper always exists) must hold, and every call must return within a callback cap / CPU budget, under plans that pack runs and saturate tables with tombstones",
        "design_ref": "DESIGN.md section 9 C13",
        "note": _TB + "; the 8x multiple is deliberately loose (current policy stays within about 2x)",
        "technique": "deterministic simulation: long churn histories under adversarial hash plans with memory-trace and termination oracles",
    },
    "C14": {
        "text": "seeded search over reachable states (steered to full load, tombstone saturation, unallocated) x keys present/absent x method chains of length <= 3 on all seven entry flavours; each chain's observation log and resulting contents must equal the same chain on the reference model",
        "design_ref": "DESIGN.md section 9 C14",
        "note": _TB + "; EntryRef::key / or_insert_with_key (need K: Borrow<Q>) and or_default are not driven",
        "technique": "deterministic simulation (fault-free configuration): entry-chain state machines vs reference model at controlled load",
    },
    "C15": {
        "text": "seeded search over reachable states x request tuples (N = 0..4, duplicates, absent keys) under plans colliding in position and tag bits and, in a third of the runs, equalities that match several entries; decided by address distinctness, entry identity by serial, panic-iff-alias and sentinel write-back",
        "design_ref": "DESIGN.md section 9 C15",
        "note": _TB,
        "technique": "deterministic simulation with fault injection: byzantine equality (matches several entries) on multi-key mutable borrows",
    },
    "C06": {
        "text": "seeded search over HashTable histories with literal 64-bit hashes taken from adversarial plans (including duplicates and zero-sized elements) against a multiset model: every stored element is found through its hash after every step, removed ones never, len counts duplicates, iter_hash(h) covers exactly the stored elements inserted with h without repeats, remove-then-VacantEntry::insert re-inserts in place with unchanged accounting, entry() works at full load",
        "design_ref": "DESIGN.md section 9 C06",
        "note": _TB,
        "technique": "deterministic simulation (fault-free configuration): caller-supplied hashes from simulator-owned plans vs multiset model",
    },
    "C07": {
        "text": "seeded search over ordered pairs of sets realised by different construction histories and hash plans, all |A| vs |B| orderings (both strategy branches of union/intersection and of -= are probed): iterator outputs as multisets against BTreeSet algebra, size_hint bounds at every step, operator forms vs method forms, assigning forms with instance identity and drop accounting, and the single-set operations with their stated keep-old / store-new / refuse semantics",
        "design_ref": "DESIGN.md section 9 C07",
        "note": _TB,
        "technique": "deterministic simulation (fault-free configuration, plus the lying-constructor fault F14): pairs of sets under per-slot hash plans vs mathematical sets",
    },
    "C18": {
        "text": "differential execution of identical recorded scenarios under the two available scanner back-ends (SSE2 16-byte, portable 8-byte selected through cfg(miri) for the hashbrown crate only) with transcript comparison, plus an in-run monitor comparing each scanner primitive and BitMask query with its byte-by-byte definition on groups that simulated histories reach (with the documented match_tag false-positive allowance for the portable scanner). Not claimed: all 2^128 groups or all byte pairs - that would be exhaustive enumeration of a pure function",
        "design_ref": "DESIGN.md section 9 C18",
        "note": _TB + "; neon/lsx back-ends and 32-bit/big-endian GroupWord are out of reach on this host",
        "technique": "deterministic simulation across build configurations: same seeded scenarios under both group-scanner back-ends + primitive monitor",
    },
    "C20": {
        "text": "seeded search over collections reached by histories x input streams with stream faults (error at element k, I/O error or EOF at byte k, short reads, lying claimed lengths, repeated keys) at the serde seam; decided by model comparison of the round trip, ledger/allocator balance after errors and the allocator-observed reservation size",
        "design_ref": "DESIGN.md section 9 C20",
        "note": _TB + "; serde and serde_json themselves are trusted",
        "technique": "deterministic simulation with fault injection: simulator-owned Deserializer/MapAccess/SeqAccess and faulty byte reader",
    },
    "C19": {
        "text": "seeded search over schedules: hashbrown's real UnindexedProducers (RawIterRange::split, ParDrainProducer) and rayon's real consumers run under a bridge the simulator owns, so the split tree, the execution order of pending subtrees and the stopping point of short-circuiting or panicking consumers are a recorded decision list that replays exactly; decided by multiset/ledger/allocator oracles and comparison with the sequential counterparts",
        "design_ref": "DESIGN.md section 9 C19",
        "note": _TB + "; leaves run to completion one at a time (no preemption inside a leaf): data races in the rayon glue cannot be observed, the check is logical (disjoint ranges, exactly-once, drop accounting); rayon's own adaptors and its pool (pinned to one thread) are real and trusted",
        "technique": "deterministic simulation of the rayon scheduler: simulator-owned bridge_unindexed with recorded split/steal/order decisions, early-stop and consumer-panic faults",
    },
}
