"""Per-property check configuration: builds, run counts, level, required probes."""

# (variant, runs) per tier. Run counts are fixed (not time-boxed) so that the explored set is a
# function of VERIF_SEED alone; wall-clock caps only truncate (reported, never a failure).
PROPS = {
    "C01": {
        "level": "exploration",
        "quick": [("A", 40000), ("B", 5000)],
        "thorough": [("A", 1600000), ("B", 200000), ("C", 200000)],
        "probes": ["tombstone_created", "rehash_in_place", "resize_up", "shrink", "shrink_to_singleton", "small_table", "one_group_table", "multi_group_table", "tombstone_reused", "insert_at_full_load"],
        "rule": "one evaluation = one simulated run: a seeded history of 10-400 HashMap operations over 3 map slots under a per-slot hash plan, every return value compared with an association-list model and the table dumped and swept after every step; non-trivial = the run contains at least one structural event (tombstone creation/reuse, in-place rehash, resize, shrink) ; distinct = distinct signatures (sequence of operation kinds + structural events), counted with a k-minimum-values sketch (exact below 4096)",
    },
    "C04": {
        "level": "fault_enumeration",
        "quick": [("A", 3000)],
        "thorough": [("A", 80000), ("C", 20000)],
        "probes": ["panic_in_resize", "panic_in_rehash_in_place", "panic_in_clone", "panic_in_drop", "panic_in_pred", "panic_in_eq", "panic_in_hash_lookup"],
        "rule": "one evaluation = one execution of a scenario; each seeded scenario is first executed fault-free to count the callback invocations of every class inside every operation, then re-executed with the k-th invocation of one class panicking inside one target operation, for every k (thorough) or k in {1, last, 2 random} (quick); non-trivial = a fault fired or a structural event occurred; distinct = distinct signatures (operation kinds + structural events + fired fault class), k-minimum-values sketch",
    },
}

DEFAULT_SEED = 20261002

ASSUMPTIONS = [
    "rustc/std, the system allocator underneath SimAlloc, the reference models and oracles in hbsim are trusted",
    "x86-64 little-endian host only; the portable scanner is exercised through cfg(miri) selection on the same host",
    "sampling: a clean batch is evidence, not proof",
    "hashbrown sources are compiled in place from the repository working tree through a shadow manifest; edits to the repository's Cargo.toml are not seen",
]

COMPONENTS = {
    "real": ["all of <repo>/src (map, set, table, raw, control, scopeguard, raw_entry, rustc_entry, rayon and serde glue)", "rayon iterator adaptors and consumers", "serde / serde_json"],
    "stubbed": ["BuildHasher/Hasher (hash plans)", "Eq/Equivalent", "element types (ledger-registered plain data)", "allocator (SimAlloc over the system allocator)", "rayon bridge_unindexed / scheduler", "serde Deserializer data source"],
}

NA_TECH = "not yet built in this session; will be claimed when its check exists"
NOT_APPLICABLE = {
    "C16": "Send/Sync markers, variance and borrow lifetimes are decided entirely by the type checker on generic obligations: there is no execution, schedule or fault for a deterministic simulator to drive or observe (DESIGN section 11)",
    "C17": "pure integer arithmetic whose stated quantifier is an exhaustive enumeration of capacities x sizes x alignments: no schedule, clock, fault or interleaving; seeded simulation would only be input generation under another name (DESIGN section 11)",
}
for _p in ["C02", "C03", "C05", "C06", "C07", "C08", "C09", "C10", "C11", "C12", "C13", "C14", "C15", "C18", "C19", "C20"]:
    NOT_APPLICABLE.setdefault(_p, NA_TECH)

_TB = "trusts rustc/std, the system allocator under SimAlloc, the reference model and oracles in hbsim; x86-64 only; sampling, not enumeration"
LEVEL_TEXT = {
    "C01": {
        "text": "seeded search over histories x hash plans x capacity histories in the fault-free configuration of the simulator; every return value is compared with an association-list model and the table is dumped, swept and allocator-balanced after every step. Sampling evidence, not proof; the right level because the property is a conformance statement over unbounded histories whose hard cases (tombstones, in-place rehash, small-table fix-up) only arise under controlled hash plans",
        "design_ref": "DESIGN.md section 9 C01",
        "note": _TB,
        "technique": "deterministic simulation (fault-free configuration): seeded histories under simulator-owned hash plans vs reference model",
    },
    "C04": {
        "text": "fault enumeration: every seeded scenario is executed fault-free to count callback invocations per class inside every operation, then re-executed with the k-th Hash/Eq/Clone/Drop/predicate/source-iterator callback panicking inside a target operation, for every k (thorough) or a sample of k (quick); after the unwind the dump invariants, ledger, allocator balance, len()==yielded==found, survivor-explained and grow-unchanged oracles run, the model is re-synchronised and the run continues under full checking. Enumerates crash points exactly for the sampled (state, operation) pairs; states are sampled",
        "design_ref": "DESIGN.md section 9 C04, section 10",
        "note": _TB + "; Into-conversion panics (F6) are only reachable through entry_ref",
        "technique": "deterministic simulation with fault injection: panic at the k-th callback invocation, enumerated over k by exact re-execution",
    },
}
