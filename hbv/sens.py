#!/usr/bin/env python3
"""Sensitivity runner: confirms a seeded change (patch + demonstration) in a scratch worktree and
runs the checks against it.

usage: sens.py confirm <src dir with patch.diff demo.rs notes.md> <seeded id> <property>   -> creates /verif/seeded/<id>/
       sens.py run <seeded id> [check ids ...]      -> runs checks (default: the owning property) against the change
       sens.py runall [--tier quick] [ids...]        -> every seeded change against its owning property's check

Nothing is ever applied to /repo: the change is applied to a scratch worktree under /tmp, which the
checks build from through HBSIM_REPO; evidence and replays of these runs go to a scratch HBSIM_OUT.
"""
import json
import os
import shutil
import subprocess
import sys
import time

VERIF = os.path.dirname(os.path.dirname(os.path.abspath(__file__)))
WT = os.environ.get("SENS_WT", "/tmp/sens_wt")
OUT = os.environ.get("SENS_OUT", "/tmp/sens_out")


def sh(cmd, cwd=None, env=None, timeout=None):
    p = subprocess.run(cmd, cwd=cwd, env=env, shell=isinstance(cmd, str), stdout=subprocess.PIPE, stderr=subprocess.STDOUT, text=True, timeout=timeout)
    return p.returncode, p.stdout


def ensure_wt():
    if not os.path.isdir(WT):
        rc, out = sh(["git", "-C", "/repo", "worktree", "add", "--detach", WT, "HEAD"])
        if rc != 0:
            raise SystemExit(out)
    sh(["git", "checkout", "--", "."], cwd=WT)
    sh(["git", "clean", "-fdq", "tests", "src"], cwd=WT)
    rc, out = sh(["git", "rev-parse", "HEAD"], cwd=WT)
    rc2, head = sh(["git", "-C", "/repo", "rev-parse", "HEAD"])
    if out.strip() != head.strip():
        sh(["git", "checkout", "-q", "--detach", head.strip()], cwd=WT)


def cargo_env():
    e = dict(os.environ)
    e["CARGO_NET_OFFLINE"] = "true"
    return e


def confirm(src, sid, prop, flags="", rustflags=""):
    ensure_wt()
    denv = cargo_env()
    if rustflags:
        denv["RUSTFLAGS"] = rustflags
        denv["CARGO_TARGET_DIR"] = os.path.join(WT, "target-alt")
    patch = os.path.join(src, "patch.diff")
    demo = os.path.join(src, "demo.rs")
    res = {"id": sid, "property": prop, "source": "independent sub-agent given only the property text and a scratch worktree"}
    # 1. demo passes without the change
    shutil.copy(demo, os.path.join(WT, "tests/zz_demo.rs"))
    rc, out = sh("cargo test --offline %s --test zz_demo 2>&1 | tail -15" % flags, cwd=WT, env=denv, timeout=1800)
    res["demo_passes_without_change"] = "test result: ok" in out and "FAILED" not in out
    # 2. apply; demo fails with the change
    rc, out = sh(["git", "apply", patch], cwd=WT)
    if rc != 0:
        res["error"] = "patch does not apply: " + out[-300:]
        print(json.dumps(res, indent=1))
        return res
    rc, out = sh("cargo test --offline %s --test zz_demo 2>&1 | tail -25" % flags, cwd=WT, env=denv, timeout=1800)
    res["demo_fails_with_change"] = ("FAILED" in out) or ("panicked" in out) or ("signal" in out) or ("error: test failed" in out)
    res["demo_output_tail"] = out[-600:]
    # 3. the existing suite, unedited, still passes with the change
    os.unlink(os.path.join(WT, "tests/zz_demo.rs"))
    rc, out = sh("cargo test --workspace --no-fail-fast --offline 2>&1 | grep -E '^test result|FAILED|^error' | head -20", cwd=WT, env=cargo_env(), timeout=3600)
    import re
    nres = len(re.findall(r"test result: ok\. \d+ passed; 0 failed", out))
    res["suite_passes_with_change"] = nres >= 5 and ("FAILED" not in out) and ("error" not in out)
    res["suite_summary"] = out.strip().splitlines()[:8]
    ensure_wt()
    ok = res["demo_passes_without_change"] and res["demo_fails_with_change"] and res["suite_passes_with_change"]
    res["confirmed"] = ok
    if ok:
        d = os.path.join(VERIF, "seeded", sid)
        os.makedirs(d, exist_ok=True)
        shutil.copy(patch, os.path.join(d, "patch.diff"))
        shutil.copy(demo, os.path.join(d, "demo.rs"))
        notes = os.path.join(src, "notes.md")
        needs = ""
        if os.path.exists(notes):
            shutil.copy(notes, os.path.join(d, "notes.md"))
            needs = open(notes).read()[:1500]
        meta = {"id": sid, "breaks_property": prop, "needs_to_manifest": needs, "confirmed": {k: res[k] for k in ("demo_passes_without_change", "demo_fails_with_change", "suite_passes_with_change")}, "demo_flags": flags, "demo_rustflags": rustflags, "commands": ["cargo test --offline <demo_flags> --test zz_demo (without / with patch)", "cargo test --workspace --no-fail-fast --offline (with patch)"], "source": res["source"], "detection": {}}
        with open(os.path.join(d, "meta.json"), "w") as f:
            json.dump(meta, f, indent=1)
    print(json.dumps({k: v for k, v in res.items() if k != "demo_output_tail"}, indent=1))
    return res


def run(sid, checks, tier="quick"):
    d = os.path.join(VERIF, "seeded", sid)
    meta = json.load(open(os.path.join(d, "meta.json")))
    if not checks:
        checks = [meta["breaks_property"]]
    ensure_wt()
    rc, out = sh(["git", "apply", os.path.join(d, "patch.diff")], cwd=WT)
    if rc != 0:
        raise SystemExit("patch does not apply: " + out)
    env = dict(os.environ)
    env["HBSIM_REPO"] = WT
    env["HBSIM_OUT"] = OUT
    results = {}
    try:
        for c in checks:
            t0 = time.time()
            rc, out = sh([os.path.join(VERIF, "check"), c, tier], cwd=VERIF, env=env, timeout=7200)
            lines = [l for l in out.splitlines() if l.startswith(("VIOLATION", "violation", "HARNESS", "KNOWN", "OK"))]
            results[c] = {"exit": rc, "detected": rc == 1, "seconds": round(time.time() - t0, 1), "lines": lines[:4]}
            print(sid, c, tier, "exit", rc, "| ".join(lines[:2])[:300], flush=True)
    finally:
        ensure_wt()
    meta.setdefault("detection", {})
    for c, r in results.items():
        meta["detection"]["%s/%s" % (c, tier)] = r
    with open(os.path.join(d, "meta.json"), "w") as f:
        json.dump(meta, f, indent=1)
    return results


if __name__ == "__main__":
    if sys.argv[1] == "confirm":
        confirm(sys.argv[2], sys.argv[3], sys.argv[4], sys.argv[5] if len(sys.argv) > 5 else "", sys.argv[6] if len(sys.argv) > 6 else "")
    elif sys.argv[1] == "run":
        run(sys.argv[2], sys.argv[3:])
    elif sys.argv[1] == "runall":
        tier = "quick"
        ids = [a for a in sys.argv[2:] if not a.startswith("--")]
        if not ids:
            ids = sorted(os.listdir(os.path.join(VERIF, "seeded")))
        for sid in ids:
            run(sid, [], tier)
