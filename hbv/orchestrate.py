"""/verif/check — orchestrates builds, worker processes, crash containment, minimisation,
replay verification, known findings, evidence and the exit code.

exit 0: the property held on everything explored; exit 1: violation (VIOLATION line printed);
exit 2: harness error (build failure, determinism self-check failed, required probe at zero).
"""
import json
import os
import shutil
import signal
import subprocess
import sys
import time

HERE = os.path.dirname(os.path.abspath(__file__))
sys.path.insert(0, HERE)
import build as hb  # noqa: E402
import minimise as mini  # noqa: E402
from props import PROPS, DEFAULT_SEED, ASSUMPTIONS, COMPONENTS  # noqa: E402

VERIF = hb.VERIF
NPROC = int(os.environ.get("HBSIM_JOBS", "16"))
KMV_K = 4096


def log(*a):
    print(*a, flush=True)


def harness_error(msg):
    log("HARNESS-ERROR: " + msg)
    sys.exit(2)


def kmv_estimate(values):
    s = sorted(set(values))
    if len(s) < KMV_K:
        return len(s)
    kth = s[KMV_K - 1]
    return int((KMV_K - 1) / (kth / float(1 << 64)))


def load_known():
    """Returns (known entries, fixed entries). known entry = dict(property, cls, world, op, text)."""
    known, fixed = [], []
    path = os.path.join(VERIF, "KNOWN_FINDINGS")
    if not os.path.exists(path):
        return known, fixed
    for line in open(path):
        line = line.strip()
        if not line or line.startswith("#"):
            continue
        if line.startswith("known:"):
            kv = dict(tok.split("=", 1) for tok in line[6:].split() if "=" in tok)
            known.append({"property": kv.get("property"), "cls": kv.get("class"), "world": kv.get("world"), "op": kv.get("op"), "text": line[6:].strip()})
        elif line.startswith("fixed:"):
            fixed.append(line[6:].strip())
    return known, fixed


def match_known(known, prop, viol, scenario):
    for k in known:
        if k["property"] == prop and k["cls"] == viol["class"] and k["world"] in (None, scenario["world"]) and k["op"] in (None, viol.get("op_kind")):
            return k
    return None


class Batch:
    """Runs one (variant, range) batch of a property across worker processes."""

    def __init__(self, prop, tier, variant, runs, seed, tmp, budget_s=0.0):
        self.prop, self.tier, self.variant, self.runs, self.seed, self.tmp = prop, tier, variant, runs, seed, tmp
        self.binary = hb.binary(variant)
        self.summaries = []
        self.crashes = []
        self.budget_s = budget_s
        self.emit_dir = None
        self.emitted = []

    def _corpus_args(self):
        # every run index must mean the same run wherever it is executed (batch, self-check, crash reconstruction)
        cdir = os.path.join(VERIF, "corpus", self.prop)
        if os.path.isdir(cdir) and self.prop not in ("C13", "C18"):
            return ["--corpus", cdir]
        return []

    def _spawn(self, idx, frm, count, extra=()):
        prog = os.path.join(self.tmp, "progress-%s-%d-%d" % (self.variant, idx, frm))
        cmd = hb.command(self.variant) + ["worker", "--prop", self.prop, "--tier", self.tier, "--seed-base", str(self.seed), "--from", str(frm), "--count", str(count), "--progress", prog]
        if self.budget_s:
            cmd += ["--budget-s", str(self.budget_s)]
        cmd += list(extra)
        cmd += self._corpus_args()
        if self.emit_dir:
            f = os.path.join(self.emit_dir, "sc-%s-%d-%d.jsonl" % (self.variant, idx, frm))
            self.emitted.append(f)
            cmd += ["--emit", f]
        p = subprocess.Popen(cmd, stdout=subprocess.PIPE, stderr=subprocess.PIPE, text=True, env=hb.run_env(self.variant))
        return {"p": p, "from": frm, "count": count, "progress": prog, "idx": idx}

    def run_files(self, files):
        """Differential mode: replays the scenarios recorded by another build (one worker per file)."""
        jobs = []
        for i, f in enumerate(files):
            prog = os.path.join(self.tmp, "progress-%s-b%d" % (self.variant, i))
            cmd = hb.command(self.variant) + ["worker", "--prop", self.prop, "--tier", self.tier, "--seed-base", str(self.seed), "--batch", f, "--progress", prog]
            jobs.append({"p": subprocess.Popen(cmd, stdout=subprocess.PIPE, stderr=subprocess.PIPE, text=True, env=hb.run_env(self.variant)), "progress": prog, "file": f})
        for j in jobs:
            out, err = j["p"].communicate()
            rc = j["p"].returncode
            got = False
            for line in out.splitlines():
                if line.startswith("SUMMARY "):
                    self.summaries.append(json.loads(line[8:]))
                    got = True
            if rc == 0 and got:
                continue
            inflight = None
            try:
                with open(j["progress"], "rb") as f:
                    b = f.read(8)
                    if len(b) == 8:
                        inflight = int.from_bytes(b, "little")
            except OSError:
                pass
            why = "HANG" if (rc == 3 and "HANG" in out) else ("exit%d" % rc if rc >= 0 else signal.Signals(-rc).name)
            self.crashes.append({"variant": self.variant, "index": inflight, "why": why, "stderr": err[-800:], "file": j["file"]})

    def run(self, nproc=NPROC, extra=()):
        if self.runs <= 0:
            return
        nproc = max(1, min(nproc, self.runs))
        per = (self.runs + nproc - 1) // nproc
        jobs = []
        for i in range(nproc):
            frm = i * per
            cnt = min(per, self.runs - frm)
            if cnt > 0:
                jobs.append(self._spawn(i, frm, cnt, extra))
        restarts = 0
        while jobs:
            j = jobs.pop(0)
            out, err = j["p"].communicate()
            rc = j["p"].returncode
            got = False
            for line in out.splitlines():
                if line.startswith("SUMMARY "):
                    self.summaries.append(json.loads(line[8:]))
                    got = True
            if rc == 0 and got:
                continue
            # the worker died: which run was in flight?
            inflight = None
            try:
                with open(j["progress"], "rb") as f:
                    b = f.read(8)
                    if len(b) == 8:
                        inflight = int.from_bytes(b, "little")
            except OSError:
                pass
            if rc < 0:
                try:
                    why = signal.Signals(-rc).name
                except ValueError:
                    why = "sig%d" % -rc
            elif rc == 3 and "HANG" in out:
                why = "HANG"
            else:
                why = "exit%d" % rc
            self.crashes.append({"variant": self.variant, "index": inflight, "why": why, "stderr": err[-800:]})
            # continue after the crashing run (bounded number of restarts)
            if inflight is not None and restarts < 8:
                restarts += 1
                nxt = inflight + 1
                end = j["from"] + j["count"]
                # account for the completed part by re-running it is too expensive; it is simply lost and reported
                if nxt < end:
                    jobs.append(self._spawn(j["idx"], nxt, end - nxt, extra))

    def trace_scenario(self, index, file=None):
        """Re-runs one seed index with a trace file and rebuilds the scenario that was in flight."""
        if file is not None:
            for line in open(file):
                d = json.loads(line)
                if d["i"] == index:
                    return d["scenario"]
            return None
        path = os.path.join(self.tmp, "trace-%s-%d" % (self.variant, index))
        cmd = hb.command(self.variant) + ["worker", "--prop", self.prop, "--tier", self.tier, "--seed-base", str(self.seed), "--from", str(index), "--count", "1", "--trace", path] + self._corpus_args()
        try:
            subprocess.run(cmd, stdout=subprocess.DEVNULL, stderr=subprocess.DEVNULL, timeout=120 if self.variant != "E" else 3600, env=hb.run_env(self.variant))
        except subprocess.TimeoutExpired:
            pass
        sc = None
        try:
            for line in open(path):
                if line.startswith("BEGIN "):
                    sc = json.loads(line[6:])
                    sc["ops"] = []
                elif line.startswith("OP ") and sc is not None:
                    sc["ops"].append(json.loads(line[3:]))
        except OSError:
            return None
        return sc


def determinism_check(prop, tier, variant, seed, tmp, n=300):
    """The same seeds in different processes and at different worker counts must give identical digests."""
    res = []
    for nproc in (3, 1):
        b = Batch(prop, tier, variant, n, seed, tmp)
        b.run(nproc=nproc, extra=("--digests", "--max-violations", "1000000"))
        if b.crashes:
            # a worker died: the main batches will reconstruct and report the crash as a violation
            return True, "skipped (a worker died during the self-check; reported through the main batch)"
        d = {}
        for s in b.summaries:
            for i, dg in s["digests"]:
                d[i] = dg
        res.append(d)
    if res[0] != res[1] or len(res[0]) == 0:
        diff = [i for i in res[0] if res[0].get(i) != res[1].get(i)]
        return False, "digests differ for run indices %s (of %d / %d)" % (diff[:10], len(res[0]), len(res[1]))
    return True, "%d runs x 2 processes layouts identical" % len(res[0])


def main(argv):
    if len(argv) >= 2 and argv[1] == "setup":
        variants = argv[2:] or ["A", "B", "C"]
        for v in variants:
            ok, dt, _ = hb.build(v)
            log("setup: build %s %s in %.1fs" % (v, "ok" if ok else "FAILED", dt))
            if not ok:
                return 2
        return 0
    if len(argv) >= 3 and argv[1] == "--replay":
        return replay_cmd(argv[2])
    if len(argv) < 2 or argv[1] not in PROPS:
        log("usage: check <property id> [quick|thorough] | check --replay <file> | check setup")
        return 2
    prop = argv[1]
    tier = argv[2] if len(argv) > 2 else os.environ.get("VERIF_TIER", "quick")
    if tier not in ("quick", "thorough"):
        tier = "quick"
    seed = int(os.environ.get("VERIF_SEED", DEFAULT_SEED))
    return run_check(prop, tier, seed)


def replay_cmd(path):
    d = json.load(open(path))
    variant = d.get("variant", "A")
    ok, dt, _ = hb.build(variant)
    if not ok:
        harness_error("build of variant %s failed" % variant)
    rp = mini.Replayer(hb.command(variant), os.path.join(hb.build_root(), "tmp"), env=hb.run_env(variant), timeout=60 if variant != "E" else 3600)
    cls, viol, owned = rp.run_file(path)
    if cls is None:
        log("replay: no violation (the property holds on this scenario)")
        return 0
    log("replay: %s: %s" % (cls, viol.get("detail", "")))
    log("VIOLATION property=%s replay=%s" % (d["scenario"]["property"], path))
    return 1


def run_check(prop, tier, seed):
    cfg = PROPS[prop]
    t0 = time.time()
    if cfg.get("miriflags"):
        os.environ["HBSIM_MIRIFLAGS_EXTRA"] = cfg["miriflags"]
    log("check %s tier=%s VERIF_SEED=%d repo=%s" % (prop, tier, seed, hb.repo_path()))
    tmp = os.path.join(hb.build_root(), "tmp", "%s-%s-%d" % (prop, tier, os.getpid()))
    os.makedirs(tmp, exist_ok=True)
    plan = cfg[tier]
    scale = float(os.environ.get("HBSIM_SCALE", "1"))
    plan = [(v, max(1, int(n * scale))) if v != "E" else (v, n) for v, n in plan]
    only = os.environ.get("HBSIM_ONLY")
    if only:
        plan = [(v, n) for v, n in plan if v in only.split(",")] or plan[:1]
    build_s = {}
    for v in sorted(set(v for v, _ in plan)):
        ok, dt, _ = hb.build(v)
        build_s[v] = round(dt, 1)
        if not ok:
            harness_error("build of variant %s failed (hook or harness no longer compiles against the repository)" % v)
    # determinism self-check on this property's own profile
    det_ok, det_msg = determinism_check(prop, tier, plan[0][0] if plan[0][0] != "E" else "A", seed, tmp, n=int(os.environ.get("HBSIM_DET_N", "300")))
    # a failed self-check on a changed tree usually means that the tree reads memory it does not own; the main
    # batch then reports the violation itself. Only if nothing is found is it a harness error.
    log("determinism: " + (det_msg if det_ok else "FAILED: " + det_msg))
    # ---- regression corpus: recorded scenarios (minimised replays of earlier findings on changed trees) are
    # replayed first; on a tree where the property holds they all pass
    corpus_hits = []
    cdir = os.path.join(VERIF, "corpus", prop)
    corpus_n = 0
    if os.path.isdir(cdir):
        v0 = plan[0][0] if plan[0][0] != "E" else "A"
        rp0 = mini.Replayer(hb.command(v0), tmp, env=hb.run_env(v0))
        for fn in sorted(os.listdir(cdir)):
            corpus_n += 1
            cls, viol, owned = rp0.run_file(os.path.join(cdir, fn))
            if cls is not None and owned:
                sc = json.load(open(os.path.join(cdir, fn)))["scenario"]
                corpus_hits.append({"seed_index": -1, "seed": "corpus-" + fn[:-5], "variant": v0, "violation": viol, "scenario": sc})
    batches = []
    cap_s = float(os.environ.get("HBSIM_BUDGET_S", "0"))
    for v, n in plan:
        b = Batch(prop, tier, v, n, seed, tmp, budget_s=cap_s)
        if cfg.get("differential"):
            b.emit_dir = tmp
        b.run()
        batches.append(b)
        if cfg.get("differential"):
            # the very same scenarios, replayed under the other scanner back-end
            other = cfg["differential"]
            ok, dt, _ = hb.build(other)
            build_s[other] = round(dt, 1)
            if not ok:
                harness_error("build of variant %s failed" % other)
            b2 = Batch(prop, tier, other, n, seed, tmp, budget_s=cap_s)
            b2.run_files([f for f in b.emitted if os.path.exists(f)])
            batches.append(b2)
    # ---- merge
    tot = {"runs": 0, "executions": 0, "ops": 0, "callbacks": 0, "nontrivial_runs": 0, "refusals": 0, "alloc_calls": 0, "elements_created": 0, "enum_targets": 0, "enum_execs": 0, "corpus_seeded_runs": 0}
    probes, fired, cbs, foreign, worlds = {}, {}, {}, {}, {}
    sig_vals, state_vals = [], []
    samples, violations, foreign_samples = [], list(corpus_hits), []
    len_hist = [0] * 8
    truncated = False
    per_build = {}
    for b in batches:
        pb = per_build.setdefault(b.variant, {"runs": 0, "executions": 0, "width": None})
        for s in b.summaries:
            for k in tot:
                tot[k] += s.get(k, 0)
            pb["runs"] += s["runs"]
            pb["executions"] += s["executions"]
            pb["width"] = s["width"]
            for d, src in ((probes, "probes"), (fired, "faults_fired"), (cbs, "callbacks_by_class"), (foreign, "foreign"), (worlds, "worlds")):
                for k, x in s[src].items():
                    d[k] = d.get(k, 0) + x
            sig_vals += s["sig_kmv"]
            state_vals += s["state_kmv"]
            for i, x in enumerate(s["len_hist"]):
                len_hist[i] += x
            truncated = truncated or s["truncated"]
            if len(samples) < 3:
                samples += s["samples"][: 3 - len(samples)]
            for v in s["violations"]:
                v["variant"] = b.variant
                violations.append(v)
            foreign_samples += s["foreign_samples"]
        for c in b.crashes:
            sc = b.trace_scenario(c["index"], c.get("file")) if c["index"] is not None else None
            cls = "hang/cpu" if c["why"] == "HANG" else "crash/" + c["why"]
            if sc is None:
                harness_error("worker died (%s) and the in-flight run could not be reconstructed: %s" % (c["why"], c["stderr"]))
            violations.append({"seed_index": c["index"], "seed": sc.get("seed", 0), "variant": b.variant, "violation": {"class": cls, "op_index": len(sc["ops"]) - 1, "op_kind": sc["ops"][-1]["k"] if sc["ops"] else "?", "detail": c["stderr"][-300:]}, "scenario": sc})
    if tot["runs"] == 0 and not any(b.crashes for b in batches):
        harness_error("no run completed")
    # ---- violations: minimise, verify replay, consult known findings
    known, fixed = load_known()
    reported, known_hits = [], []
    outdir = os.environ.get("HBSIM_OUT", VERIF)
    rdir = os.path.join(outdir, "replays", prop)
    seen_classes = set()
    also_seen = []
    flaky_crashes = []
    for v in violations:
        viol, sc = v["violation"], v["scenario"]
        key = (viol["class"], sc["world"], viol.get("op_kind"))
        if key in seen_classes:
            continue
        seen_classes.add(key)
        k0 = match_known(known, prop, viol, sc)
        if k0 is None and len(reported) >= int(os.environ.get("HBSIM_MAX_REPORTS", "3")):
            also_seen.append("%s in %s (%s), run index %s" % key[:1] + (sc["world"], viol.get("op_kind"), v["seed_index"]) if False else "%s world=%s op=%s run=%s" % (viol["class"], sc["world"], viol.get("op_kind"), v["seed_index"]))
            continue
        rp = mini.Replayer(hb.command(v["variant"]), tmp, env=hb.run_env(v["variant"]), timeout=60 if v["variant"] != "E" else 3600)
        if viol["class"].startswith("differential/"):
            # needs both back-ends: not minimised; the replay file carries the transcript of the first build
            os.makedirs(rdir, exist_ok=True)
            path = os.path.join(rdir, "%s-%s.json" % (str(v["seed"]), viol["class"].replace("/", "_")))
            with open(path, "w") as f:
                json.dump({"property": prop, "variant": v["variant"], "violation": viol, "seed_index": v["seed_index"], "verif_seed": seed, "expect_transcript": v.get("expect_transcript"), "scenario": sc}, f, indent=1)
            cls2, _, _ = rp.run_file(path)
            if cls2 is None:
                harness_error("differential replay file %s does not reproduce" % path)
            k = match_known(known, prop, viol, sc)
            if k is not None:
                known_hits.append((k, path))
            else:
                reported.append((viol, path))
            continue
        cls0, viol0, owned0 = rp.run(sc)
        if cls0 is None and viol["class"].startswith("crash/"):
            # a worker died, but the reconstructed scenario does not crash in a fresh process: a tree that reads
            # memory it does not own behaves differently depending on what the worker's heap held. Not reportable
            # as a replayable violation; the other violations of the batch are, and if there are none the check
            # ends undecided (exit 2), never as a pass.
            flaky_crashes.append("%s of run %s" % (viol["class"], v["seed_index"]))
            seen_classes.discard(key)
            continue
        if cls0 is None:
            harness_error("violation %s of run %s did not reproduce on replay (nondeterminism in the harness)" % (viol["class"], v["seed_index"]))
        small = mini.minimise(rp, sc, cls0, budget=int(os.environ.get("HBSIM_MIN_BUDGET", "600")) if v["variant"] != "E" else 12)
        cls1, viol1, owned1 = rp.run(small)
        if cls1 is None:
            small, viol1 = sc, viol0
        k = match_known(known, prop, viol1, small)
        os.makedirs(rdir, exist_ok=True)
        path = os.path.join(rdir, "%s-%s.json" % (str(v["seed"]), viol1["class"].replace("/", "_")))
        with open(path, "w") as f:
            json.dump({"property": prop, "variant": v["variant"], "violation": viol1, "seed_index": v["seed_index"], "verif_seed": seed, "original_ops": len(sc["ops"]), "minimised_ops": len(small["ops"]), "minimiser_attempts": rp.attempts, "scenario": small}, f, indent=1)
        # the replay file must reproduce in a fresh process
        cls2, _, _ = rp.run_file(path)
        if cls2 is None:
            harness_error("replay file %s does not reproduce its violation" % path)
        if k is not None:
            known_hits.append((k, path))
        else:
            reported.append((viol1, path))
    # ---- required probes
    missing = [p for p in cfg.get("probes", []) if probes.get(p, 0) == 0]
    wall = time.time() - t0
    # the sketch is an estimate (about 1.5 % standard error at k = 4096): it cannot exceed the number of
    # executions that produced a signature
    distinct = min(kmv_estimate(sig_vals), tot["executions"])
    states = kmv_estimate(state_vals)
    evidence = {
        "property_id": prop,
        "tier": tier,
        "seed": seed,
        "level": cfg["level"],
        "coverage": {
            "evaluations": tot["executions"],
            "distinct_nontrivial": distinct,
            "rule": cfg["rule"],
            "samples": samples if samples else [{"note": "no sample short enough was recorded"}],
            "simulated_runs": tot["runs"],
            "nontrivial_runs": tot["nontrivial_runs"],
            "corpus_scenarios_replayed": corpus_n,
            "corpus_seeded_runs": tot.get("corpus_seeded_runs", 0),
            "fault_enumeration_targets": tot["enum_targets"],
            "fault_enumeration_executions": tot["enum_execs"],
            "runs_per_hour": int(tot["executions"] / max(wall, 1e-6) * 3600),
            "logical_time": {"operations": tot["ops"], "callback_invocations": tot["callbacks"], "allocator_calls": tot["alloc_calls"], "elements_created": tot["elements_created"], "note": "hashbrown has no clock; logical time is counted in operations and callbacks"},
            "scenario_length_histogram_log2": len_hist,
            "faults_fired": dict(fired, allocator_refusals=tot["refusals"]),
            "callbacks_by_class": cbs,
            "probes": probes,
            "distinct_states": states,
            "distinct_states_rule": "distinct (bucket count, group width, EMPTY/DELETED/FULL pattern, growth_left) signatures, k-minimum-values estimate (exact below 4096)",
            "builds": per_build,
            "build_seconds": build_s,
            "worlds": worlds,
            "components": COMPONENTS,
            "determinism": det_msg,
            "foreign_violations": foreign,
            "foreign_samples": foreign_samples[:3],
            "violations_reported": [{"class": v["class"], "op_kind": v.get("op_kind"), "detail": v.get("detail", "")[:300], "replay": p} for v, p in reported],
            "known_findings_matched": [k["text"] for k, _ in known_hits],
            "fixed_entries": fixed,
            "truncated_by_wall_clock_cap": truncated,
            "seeds": {"verif_seed": seed, "run_seed": "mix3(VERIF_SEED, fnv(property), run index)", "first_index": 0, "last_index": max(n for _, n in plan) - 1},
        },
        "assumptions": ASSUMPTIONS,
        "wall_s": round(wall, 2),
        "violations": len(reported),
    }
    os.makedirs(os.path.join(outdir, "evidence"), exist_ok=True)
    with open(os.path.join(outdir, "evidence", prop + ".json"), "w") as f:
        json.dump(evidence, f, indent=1)
    shutil.rmtree(tmp, ignore_errors=True)
    log("runs=%d executions=%d ops=%d distinct_nontrivial=%d states=%d wall=%.1fs" % (tot["runs"], tot["executions"], tot["ops"], distinct, states, wall))
    log("probes: " + " ".join("%s=%d" % kv for kv in sorted(probes.items())))
    if foreign:
        log("foreign violations (owned by other properties, not reported here): %s" % foreign)
    for k, path in known_hits:
        log("KNOWN-FINDING: %s (replay=%s)" % (k["text"] if k["text"].startswith("property=") else "property=%s %s" % (prop, k["text"]), path))
    for viol, path in reported:
        log("violation class=%s op=%s: %s" % (viol["class"], viol.get("op_kind"), viol.get("detail", "")[:300]))
        log("VIOLATION property=%s replay=%s" % (prop, path))
    for a in also_seen:
        log("also seen (not minimised): " + a)
    for fc_ in flaky_crashes:
        log("worker crash that did not reproduce in a fresh process: " + fc_)
    if reported:
        return 1
    if flaky_crashes:
        harness_error("undecided: %d worker crash(es) did not reproduce on replay and no replayable violation was found (%s)" % (len(flaky_crashes), flaky_crashes[0]))
    if not det_ok:
        harness_error("determinism self-check failed and no violation was found: " + det_msg)
    if missing:
        if foreign and sum(foreign.values()) * 4 > tot["runs"]:
            # most runs were cut short by violations that belong to other properties: this property is undecided
            # on this tree (neither a pass nor a violation of it); the owning checks report them
            harness_error("undecided: %d of %d runs were cut short by violations owned by other properties %s, so the states this check needs (%s) were never reached; run the checks that own those classes" % (sum(foreign.values()), tot["runs"], foreign, missing))
        harness_error("required probes never fired in this tier: %s (workload bug, not a pass)" % missing)
    log("OK property=%s held on everything explored" % prop)
    return 0


if __name__ == "__main__":
    sys.exit(main(sys.argv))
