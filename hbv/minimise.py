"""Delta debugging on a scenario while the same violation class persists.

Every attempt runs `hbsim replay` in a child process, so crashes and hangs are attempts like any
other. The result is a replay file containing only primitive operations and unconditional faults.
"""
import copy
import json
import os
import signal
import subprocess
import tempfile


class Replayer:
    def __init__(self, binary, tmpdir, timeout=60, env=None):
        self.env = env
        self.binary = binary if isinstance(binary, list) else [binary]
        self.tmpdir = tmpdir
        self.timeout = timeout
        self.attempts = 0
        os.makedirs(tmpdir, exist_ok=True)

    def run_file(self, path):
        """Returns (class or None, violation dict or None, owned flag)."""
        try:
            p = subprocess.run(self.binary + ["replay", path], stdout=subprocess.PIPE, stderr=subprocess.PIPE, text=True, timeout=self.timeout, env=self.env)
        except subprocess.TimeoutExpired:
            return "hang/replay", {"class": "hang/replay", "detail": "replay exceeded %ds" % self.timeout, "op_index": -1, "op_kind": "?"}, True
        if p.returncode < 0 or p.returncode > 2:
            try:
                name = signal.Signals(-p.returncode).name if p.returncode < 0 else "exit%d" % p.returncode
            except ValueError:
                name = "sig%d" % -p.returncode
            tail = (p.stderr or "")[-400:]
            if p.returncode == 3 and "HANG" in p.stdout:
                return "hang/cpu", {"class": "hang/cpu", "detail": "an operation consumed more than 20 s of CPU", "op_index": -1, "op_kind": "?"}, True
            return "crash/" + name, {"class": "crash/" + name, "detail": tail, "op_index": -1, "op_kind": "?"}, True
        viol, owned = None, True
        for line in p.stdout.splitlines():
            if line.startswith("VIOLATION-JSON "):
                viol = json.loads(line[len("VIOLATION-JSON "):])
            elif line.startswith("owned="):
                owned = line.strip() == "owned=true"
        if viol is None:
            return None, None, False
        return viol["class"], viol, owned

    def run(self, scenario):
        self.attempts += 1
        fd, path = tempfile.mkstemp(suffix=".json", dir=self.tmpdir)
        with os.fdopen(fd, "w") as f:
            json.dump({"scenario": scenario}, f)
        try:
            return self.run_file(path)
        finally:
            os.unlink(path)


def _same(cls, want):
    # crash signals may differ between attempts (SIGSEGV vs SIGABRT): any crash counts as the same class
    if cls is None:
        return False
    if want.startswith("crash/"):
        return cls.startswith("crash/")
    return cls == want


def minimise(rp, scenario, want_class, budget=800):
    sc = copy.deepcopy(scenario)

    def ok(cand):
        if rp.attempts >= budget:
            return False
        cls, _, _ = rp.run(cand)
        return _same(cls, want_class)

    # 0. cut everything after the failing operation is already done by the worker. 1. ddmin on ops
    n = 2
    while len(sc["ops"]) >= 2 and rp.attempts < budget:
        ops = sc["ops"]
        chunk = max(1, len(ops) // n)
        reduced = False
        i = 0
        while i < len(ops):
            cand = copy.deepcopy(sc)
            cand["ops"] = ops[:i] + ops[i + chunk:]
            if cand["ops"] and ok(cand):
                sc = cand
                ops = sc["ops"]
                reduced = True
                n = max(n - 1, 2)
            else:
                i += chunk
            if rp.attempts >= budget:
                break
        if not reduced:
            if chunk == 1:
                break
            n = min(n * 2, len(ops))
    # 2. simplify each remaining operation
    for i in range(len(sc["ops"])):
        if rp.attempts >= budget:
            break
        op = sc["ops"][i]
        if "v" in op and len(op["v"]) > 1:
            # drop list elements (pairs for extend-like ops are kept aligned by trying 2 at a time first)
            for step in (2, 1):
                j = 0
                while j < len(sc["ops"][i].get("v", [])) and rp.attempts < budget:
                    cand = copy.deepcopy(sc)
                    v = cand["ops"][i]["v"]
                    del v[j:j + step]
                    if ok(cand):
                        sc = cand
                    else:
                        j += step
        for field in ("a", "b", "c"):
            val = sc["ops"][i].get(field, 0)
            if val not in (0, None) and rp.attempts < budget:
                for repl in (0, 1, val // 2):
                    if repl == val:
                        continue
                    cand = copy.deepcopy(sc)
                    cand["ops"][i][field] = repl
                    if ok(cand):
                        sc = cand
                        break
        if "f" in sc["ops"][i] and sc["ops"][i]["f"] and rp.attempts < budget:
            cand = copy.deepcopy(sc)
            cand["ops"][i].pop("f")
            if ok(cand):
                sc = cand
            else:
                k = sc["ops"][i]["f"]["k"]
                for repl in (1, k // 2):
                    if repl >= 1 and repl != k:
                        cand = copy.deepcopy(sc)
                        cand["ops"][i]["f"]["k"] = repl
                        if ok(cand):
                            sc = cand
                            break
        if "r" in sc["ops"][i] and rp.attempts < budget:
            cand = copy.deepcopy(sc)
            cand["ops"][i].pop("r")
            if ok(cand):
                sc = cand
    # 3. simplify the plans
    for si in range(len(sc["cfg"]["plans"])):
        if rp.attempts >= budget:
            break
        for repl in ({"Mixed": 0}, "Seq", "Const0"):
            if sc["cfg"]["plans"][si] == repl:
                break
            cand = copy.deepcopy(sc)
            cand["cfg"]["plans"][si] = repl
            if ok(cand):
                sc = cand
                break
    if sc["cfg"].get("exact_align", True) is False:
        pass
    return sc
