#!/usr/bin/env python3
"""Syntactic mutation sampling of the table core (src/raw/mod.rs, src/control/*.rs): a coarse, unbiased
complement to the hand-made seeded changes of hbv/sens.py.

For each sampled mutant (one token-level change at one site): apply it in a scratch worktree, run the
repository's own unit tests (`cargo test --offline --lib`); if they still pass, run the quick checks in a fixed
order until one reports a violation. Results go to /verif/automut/results.jsonl (one line per mutant) and a
summary table to /verif/AUTOMUT.md. Nothing is ever written to /repo.

usage: python3 hbv/automut.py <n mutants> [seed] [worker id]
"""
import json
import os
import random
import re
import subprocess
import sys
import time

VERIF = os.path.dirname(os.path.dirname(os.path.abspath(__file__)))
FILES = ["src/raw/mod.rs", "src/control/bitmask.rs", "src/control/tag.rs", "src/control/group/sse2.rs"]
ORDER = ["C01", "C06", "C02", "C03", "C08", "C10", "C13", "C14", "C09", "C11", "C12", "C05", "C07", "C15", "C04", "C18", "C19", "C20"]

RULES = [
    (r"(?<![=!<>])==(?!=)", "!="), (r"!=", "=="),
    (r"(?<![<-])<=", "<"), (r"(?<![>=-])>=", ">"),
    (r"(?<= )<(?= )", "<="), (r"(?<= )>(?= )", ">="),
    (r"\+ 1\b", "+ 0"), (r"- 1\b", "- 0"), (r"\+ 1\b", "+ 2"),
    (r"&&", "||"), (r"\|\|", "&&"),
    (r"\bGroup::WIDTH\b", "(Group::WIDTH - 1)"), (r"\bGroup::WIDTH\b", "(Group::WIDTH + 1)"),
    (r"\.wrapping_sub\(", ".wrapping_add("), (r"\.wrapping_add\(", ".wrapping_sub("),
    (r"\bself\.items \+= 1", "self.items += 0"), (r"\bself\.items -= 1", "self.items -= 0"),
    (r"growth_left -= ", "growth_left += "), (r"growth_left \+= ", "growth_left -= "),
    (r"\bTag::EMPTY\b", "Tag::DELETED"), (r"\bTag::DELETED\b", "Tag::EMPTY"),
    (r"\bmatch_empty\(\)", "match_empty_or_deleted()"), (r"\bmatch_empty_or_deleted\(\)", "match_empty()"),
    (r"\bis_full\(\)", "is_special()"), (r"\bis_special\(\)", "is_full()"),
]


def sh(cmd, cwd=None, env=None, timeout=3600):
    try:
        p = subprocess.run(cmd, cwd=cwd, env=env, stdout=subprocess.PIPE, stderr=subprocess.STDOUT, text=True, timeout=timeout, shell=isinstance(cmd, str))
        return p.returncode, p.stdout
    except subprocess.TimeoutExpired:
        return 124, "TIMEOUT"


def sites(wt):
    out = []
    for f in FILES:
        lines = open(os.path.join(wt, f)).read().split("\n")
        in_test = False
        for i, line in enumerate(lines):
            st = line.strip()
            if st.startswith("#[cfg(test)]") and i + 1 < len(lines) and lines[i + 1].strip().startswith("mod "):
                in_test = True
            if in_test or st.startswith("//") or st.startswith("///") or "debug_assert" in st or st.startswith("#[") or "assert!(" in st:
                continue
            code = line.split("//")[0]
            for ri, (pat, rep) in enumerate(RULES):
                for m in re.finditer(pat, code):
                    out.append((f, i, m.start(), m.end(), rep, ri))
    return out


def main():
    n = int(sys.argv[1])
    seed = int(sys.argv[2]) if len(sys.argv) > 2 else 1
    wid = sys.argv[3] if len(sys.argv) > 3 else "0"
    wt = "/tmp/am_wt" + wid
    outdir = os.environ.get("AUTOMUT_OUT", os.path.join(VERIF, "automut"))
    os.makedirs(outdir, exist_ok=True)
    if not os.path.isdir(wt):
        rc, o = sh(["git", "-C", "/repo", "worktree", "add", "--detach", wt, "HEAD"])
        if rc != 0:
            print(o)
            return 2
    sh(["git", "-C", wt, "checkout", "--", "."])
    all_sites = sites(wt)
    rnd = random.Random(seed)
    rnd.shuffle(all_sites)
    if len(sys.argv) > 4:
        # "k/m": this worker takes every m-th site starting at k (several workers share one shuffled list)
        k, m = (int(x) for x in sys.argv[4].split("/"))
        all_sites = all_sites[k::m]
    env = dict(os.environ, CARGO_NET_OFFLINE="true", CARGO_TARGET_DIR=os.path.join(wt, "target"))
    done = 0
    res_path = os.path.join(outdir, "results-%s.jsonl" % wid)
    for (f, li, a, b, rep, ri) in all_sites:
        if done >= n:
            break
        path = os.path.join(wt, f)
        lines = open(path).read().split("\n")
        old = lines[li]
        new = old[:a] + rep + old[b:]
        lines[li] = new
        open(path, "w").write("\n".join(lines))
        rec = {"file": f, "line": li + 1, "old": old.strip(), "new": new.strip(), "rule": ri}
        t0 = time.time()
        rc, o = sh("cargo test --offline --lib 2>&1 | tail -30", cwd=wt, env=env, timeout=1500)
        if "error" in o and "test result" not in o:
            rec["outcome"] = "does-not-compile"
        elif "test result: ok" not in o or "FAILED" in o or "panicked" in o:
            rec["outcome"] = "killed-by-unit-tests"
        else:
            rec["outcome"] = "survived-all-checks"
            rec["checks"] = {}
            cenv = dict(os.environ, HBSIM_REPO=wt, HBSIM_OUT="/tmp/am_out" + wid, HBSIM_JOBS="8")
            for prop in ORDER:
                rc2, o2 = sh([os.path.join(VERIF, "check"), prop, "quick"], env=cenv, timeout=2400)
                first = next((l for l in o2.splitlines() if l.startswith("violation class") or "HARNESS" in l), "")
                rec["checks"][prop] = {"exit": rc2, "first": first[:200]}
                if rc2 == 1:
                    rec["outcome"] = "killed-by-" + prop
                    break
                if rc2 not in (0, 1):
                    # undecided under this check (for example every run cut short by another property's
                    # violation): noted, the following checks still run
                    rec.setdefault("undecided", []).append(prop)
        rec["seconds"] = round(time.time() - t0, 1)
        with open(res_path, "a") as fh:
            fh.write(json.dumps(rec) + "\n")
        print(rec["outcome"], f, li + 1, "|", rec["old"][:70], "=>", rec["new"][:70], flush=True)
        if rec["outcome"] != "does-not-compile":
            done += 1
        sh(["git", "-C", wt, "checkout", "--", "."])
    return 0


if __name__ == "__main__":
    sys.exit(main())
