"""Renders the shadow manifests for a given repository path and builds hbsim variants.

Nothing is copied from the repository: the shadow `hashbrown` package compiles
<repo>/src/lib.rs in place, so every build sees the repository's current working tree.
"""
import hashlib
import os
import shutil
import subprocess
import sys
import time

VERIF = os.path.dirname(os.path.dirname(os.path.abspath(__file__)))

# variant -> (profile, group back-end, toolchain, extra rustflags, target triple or None)
VARIANTS = {
    "A": ("simdbg", "sse2", None, "", None),       # SSE2 scanner, debug assertions on
    "B": ("simdbg", "generic", None, "", None),    # portable scanner, debug assertions on
    "C": ("simrel", "sse2", None, "", None),       # SSE2 scanner, assertions off (as shipped)
    "D": ("simdbg", "sse2", "nightly", "-Zsanitizer=address", "x86_64-unknown-linux-gnu"),
    "DB": ("simdbg", "generic", "nightly", "-Zsanitizer=address", "x86_64-unknown-linux-gnu"),
    # source coverage of the repository under the simulator (hbv/coverage.py; reach measurement, not a check)
    "V": ("simdbg", "sse2", "nightly", "-Cinstrument-coverage", None),
    # Miri (always the portable scanner); run through `cargo miri run`, see command()
    "E": ("dev", "generic", "nightly", "", None),
}


def repo_path():
    return os.path.abspath(os.environ.get("HBSIM_REPO", "/repo"))


def build_root():
    root = os.environ.get("HBSIM_BUILD_DIR", os.path.join(VERIF, "build"))
    key = hashlib.sha1(repo_path().encode()).hexdigest()[:10]
    return os.path.join(root, key)


def render():
    """(Re)writes the rendered manifests; returns the directory of the rendered sim crate."""
    root = build_root()
    repo = repo_path()
    sh = os.path.join(root, "shadow")
    os.makedirs(os.path.join(sh, "hashbrown"), exist_ok=True)
    os.makedirs(os.path.join(root, "sim"), exist_ok=True)

    def put(path, text):
        old = None
        if os.path.exists(path):
            with open(path) as f:
                old = f.read()
        if old != text:
            with open(path, "w") as f:
                f.write(text)

    with open(os.path.join(VERIF, "shadow/hashbrown/Cargo.toml.in")) as f:
        put(os.path.join(sh, "hashbrown/Cargo.toml"), f.read().replace("@REPO@", repo))
    with open(os.path.join(VERIF, "shadow/hashbrown/build.rs")) as f:
        put(os.path.join(sh, "hashbrown/build.rs"), f.read())
    # sim-rayon is copied (it is ours, not the repository's)
    dst = os.path.join(sh, "sim-rayon")
    src = os.path.join(VERIF, "shadow/sim-rayon")
    os.makedirs(os.path.join(dst, "src"), exist_ok=True)
    for rel in ["Cargo.toml"] + [os.path.join("src", n) for n in sorted(os.listdir(os.path.join(src, "src")))]:
        with open(os.path.join(src, rel)) as f:
            put(os.path.join(dst, rel), f.read())
    with open(os.path.join(VERIF, "sim/Cargo.toml.in")) as f:
        put(os.path.join(root, "sim/Cargo.toml"), f.read().replace("@VERIF@", VERIF))
    lock = os.path.join(root, "sim/Cargo.lock")
    if not os.path.exists(lock):
        seed_lock = os.path.join(VERIF, "sim/Cargo.lock")
        if os.path.exists(seed_lock):
            shutil.copy(seed_lock, lock)
        else:
            shutil.copy(os.path.join(repo, "Cargo.lock"), lock)
    return os.path.join(root, "sim")


def command(variant):
    """Command prefix that runs hbsim for a variant."""
    if variant == "E":
        return ["cargo", "+nightly", "miri", "run", "--offline", "--quiet", "--manifest-path", os.path.join(build_root(), "sim", "Cargo.toml"), "--"]
    return [binary(variant)]


def run_env(variant):
    """Environment for running a variant's binary."""
    env = dict(os.environ)
    if variant == "E":
        env["CARGO_NET_OFFLINE"] = "true"
        env["MIRIFLAGS"] = ("-Zmiri-disable-isolation " + os.environ.get("HBSIM_MIRIFLAGS_EXTRA", "")).strip()
        env["CARGO_TARGET_DIR"] = os.path.join(build_root(), "target-E")
        env["RUSTFLAGS"] = (env.get("RUSTFLAGS", "") + " -Awarnings").strip()
    if variant.startswith("D"):
        env["HBSIM_ASAN"] = "1"
        env["ASAN_OPTIONS"] = "detect_leaks=0:abort_on_error=1:symbolize=0"
    return env


def binary(variant):
    profile, group, toolchain, flags, triple = VARIANTS[variant]
    tdir = os.path.join(build_root(), "target-" + variant)
    if triple:
        return os.path.join(tdir, triple, profile, "hbsim")
    return os.path.join(tdir, profile, "hbsim")


def build(variant, quiet=True):
    """Builds hbsim for a variant from the repository's current working tree. Returns (ok, seconds, log)."""
    profile, group, toolchain, flags, triple = VARIANTS[variant]
    simdir = render()
    if variant == "E":
        # `cargo miri run` builds on first use; run a trivial sub-command to build (and to fail early)
        t0 = time.time()
        p = subprocess.run(command("E") + ["width"], env=run_env("E"), stdout=subprocess.PIPE, stderr=subprocess.STDOUT, text=True)
        ok = p.returncode == 0 and p.stdout.strip().endswith("8")
        if not ok:
            sys.stderr.write(p.stdout[-6000:])
        return ok, time.time() - t0, p.stdout
    env = dict(os.environ)
    env["CARGO_NET_OFFLINE"] = "true"
    env["HBSIM_GROUP"] = group
    env["CARGO_TARGET_DIR"] = os.path.join(build_root(), "target-" + variant)
    rf = env.get("RUSTFLAGS", "")
    if flags:
        env["RUSTFLAGS"] = (rf + " " + flags).strip()
    cmd = ["cargo"]
    if toolchain:
        cmd.append("+" + toolchain)
    cmd += ["build", "--offline", "--profile", profile, "--manifest-path", os.path.join(simdir, "Cargo.toml")]
    if triple:
        cmd += ["--target", triple]
    t0 = time.time()
    p = subprocess.run(cmd, env=env, stdout=subprocess.PIPE, stderr=subprocess.STDOUT, text=True)
    dt = time.time() - t0
    ok = p.returncode == 0 and os.path.exists(binary(variant))
    if not quiet or not ok:
        sys.stderr.write(p.stdout[-60000:])
    return ok, dt, p.stdout


if __name__ == "__main__":
    v = sys.argv[1] if len(sys.argv) > 1 else "A"
    ok, dt, log = build(v, quiet=False)
    print("build", v, "ok" if ok else "FAILED", "%.1fs" % dt, binary(v))
    sys.exit(0 if ok else 2)
