#!/usr/bin/env python3
"""Determinism self-check at scale: the same run indices executed at worker counts 1, 4 and 16 (different
process layouts) must give identical per-run digests, for every property.  usage: selfcheck.py [N] [props...]"""
import os
import sys
import tempfile

HERE = os.path.dirname(os.path.abspath(__file__))
sys.path.insert(0, HERE)
import build as hb  # noqa: E402
import orchestrate as orc  # noqa: E402
from props import PROPS, DEFAULT_SEED  # noqa: E402


def main():
    n = int(sys.argv[1]) if len(sys.argv) > 1 else 2000
    props = sys.argv[2:] or sorted(PROPS)
    ok, dt, _ = hb.build("A")
    if not ok:
        sys.exit(2)
    bad = 0
    for prop in props:
        tmp = tempfile.mkdtemp(prefix="selfcheck-", dir=os.path.join(hb.build_root()))
        res = []
        for nproc in (1, 4, 16):
            b = orc.Batch(prop, "quick", "A", n if prop != "C13" else max(50, n // 20), DEFAULT_SEED + 77, tmp)
            b.run(nproc=nproc, extra=("--digests", "--max-violations", "1000000"))
            d = {}
            for s in b.summaries:
                for i, dg in s["digests"]:
                    d[i] = dg
            res.append(d)
        same = res[0] == res[1] == res[2] and len(res[0]) > 0
        print("%s: %d runs x worker counts 1/4/16: %s" % (prop, len(res[0]), "identical" if same else "DIFFER"), flush=True)
        if not same:
            bad += 1
            diff = [i for i in res[0] if not (res[0].get(i) == res[1].get(i) == res[2].get(i))]
            print("   differing run indices:", diff[:20])
    sys.exit(1 if bad else 0)


if __name__ == "__main__":
    main()
