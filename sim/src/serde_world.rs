//! C20 operations on the map and set worlds: serde_json round trips (also through a faulty byte
//! reader) and deserialisation from the simulator-owned stream with claimed lengths, repeated keys
//! and an error at element k.

use crate::ctx::{Out, VResult};
use crate::elem::{KeyT, ValT};
use crate::mapw::{MapWorld, SMap, ME};
use crate::plan::Plan;
use crate::scenario::{Kd, Op};
use crate::serdeops::{FaultyReader, SimDeserializer};
use crate::setw::{SSet, SetWorld};
use crate::state::{sim, Probe};
use serde::Deserialize;

macro_rules! vio {
    ($self:ident, $class:expr, $($arg:tt)*) => {
        return Err($self.ctx.violation(&$class, format!($($arg)*)))
    };
}

const RESERVE_BOUND: u64 = 2 << 20;

fn live_now() -> (i64, usize) {
    let s = sim();
    (s.live_serials as i64 + s.ms_live_total(), s.blocks.len())
}

fn stream_of(op: &Op, universe: u32) -> (Vec<(u32, u32)>, Option<usize>, Option<usize>) {
    let items: Vec<(u32, u32)> = op.v.chunks(2).filter(|c| c.len() == 2).map(|c| (c[0] as u32 % universe, c[1] as u32)).collect();
    let hint = match op.a {
        -1 => None,
        -2 => Some(items.len()),
        x => Some(x as u64 as usize),
    };
    let err_at = if op.b >= 0 && (op.b as usize) <= items.len() { Some(op.b as usize) } else { None };
    (items, hint, err_at)
}

impl<K: KeyT, V: ValT> MapWorld<K, V> {
    pub(crate) fn op_serde(&mut self, si: usize, op: &Op) -> VResult {
        let fc = self.fctx(si, op);
        let (live0, blocks0) = live_now();
        if op.k == Kd::SerdeRoundTrip {
            let mode = op.a.rem_euclid(4);
            let m = self.slots[si].map.as_ref().unwrap();
            let bytes = match self.ctx.call(op, || serde_json::to_vec(m)) {
                Out::Ok(Ok(b)) => b,
                Out::Ok(Err(e)) => vio!(self, "serde/serialize", "serialising a map failed: {e}"),
                o => {
                    self.settle(o.map_unit(), si, fc)?;
                    return Ok(());
                }
            };
            let cut = (op.b.max(0) as usize) % (bytes.len() + 1);
            let chunk = 1 + (op.c.max(0) as usize % 7);
            let rd = FaultyReader { data: &bytes, pos: 0, mode: if mode >= 2 { (mode - 1) as u8 } else { 0 }, at: cut, chunk: if mode == 0 { usize::MAX } else { chunk } };
            let out = self.ctx.call(op, || serde_json::from_reader::<_, SMap<K, V>>(rd));
            let res = match out {
                Out::Ok(r) => r,
                o => {
                    self.settle(o.map_unit(), si, fc)?;
                    return Ok(());
                }
            };
            let faulty = mode >= 2 && cut < bytes.len();
            let may_fail = faulty || mode == 2;
            match res {
                Ok(m2) => {
                    sim().probe(Probe::SerdeRoundTrip);
                    let m = self.slots[si].map.as_ref().unwrap();
                    let eq = match self.ctx.call(&Op::new(Kd::Nop), || *m == m2 && m2 == *m) {
                        Out::Ok(b) => b,
                        _ => false,
                    };
                    let mut got: Vec<(u32, u32)> = m2.iter().map(|(k, v)| (k.id(), v.val())).collect();
                    got.sort();
                    drop(m2);
                    let mut want: Vec<(u32, u32)> = self.slots[si].model.e.iter().map(|e| (e.kid, e.v)).collect();
                    want.sort();
                    if faulty {
                        vio!(self, "serde/accepted-truncated", "deserialising JSON cut at byte {cut} of {} succeeded", bytes.len());
                    }
                    // `==` is false when a value unequal to itself is stored
                    let nan = V::HAS_NAN && want.iter().any(|p| p.1 == crate::elem::NAN_VAL);
                    if got != want || eq == nan {
                        vio!(self, "serde/round-trip", "deserialize(serialize(map)) holds {} entries, the map {} (== says {eq})", got.len(), want.len());
                    }
                }
                Err(_) if may_fail => {
                    sim().probe(Probe::SerdeErrMid);
                }
                Err(e) => vio!(self, "serde/round-trip", "deserialising a serialised map failed: {e}"),
            }
            let (live1, blocks1) = live_now();
            if live1 != live0 || blocks1 != blocks0 {
                vio!(self, "serde/leak", "after a round trip (mode {mode}) {} elements / {} blocks remain live (before: {live0} / {blocks0})", live1, blocks1);
            }
            return Ok(());
        }
        // SerdeStream into a fresh map that then replaces the slot's map
        let (items, hint, err_at) = stream_of(op, K::UNIVERSE);
        let items: Vec<(u32, u32)> = items.into_iter().map(|(k, v)| (k, Self::nv(v))).collect();
        let n = items.len();
        if hint.map_or(false, |h| h != n) {
            sim().probe(Probe::SerdeLyingHint);
        }
        let mut expect: Vec<(u32, u32)> = Vec::new();
        for &(k, v) in &items {
            match expect.iter_mut().find(|e| e.0 == k) {
                Some(e) => {
                    sim().probe(Probe::SerdeDupKey);
                    e.1 = v;
                }
                None => expect.push((k, v)),
            }
        }
        let de = SimDeserializer { items, hint, err_at };
        let out = self.ctx.call(op, || SMap::<K, V>::deserialize(de));
        let maxreq = self.ctx.last_max_request;
        let res = match out {
            Out::Ok(r) => r,
            o => {
                self.settle(o.map_unit(), si, fc)?;
                return Ok(());
            }
        };
        if maxreq > RESERVE_BOUND {
            drop(res);
            vio!(self, "serde/over-reservation", "deserialising {n} entries with claimed length {:?} asked the allocator for {maxreq} bytes", hint);
        }
        match res {
            Ok(m2) => {
                if err_at.map_or(false, |e| e < n) {
                    drop(m2);
                    vio!(self, "serde/swallowed-error", "a stream error at element {:?} of {n} was not reported", err_at);
                }
                let mut got: Vec<(u32, u32)> = m2.iter().map(|(k, v)| (k.id(), v.val())).collect();
                got.sort();
                expect.sort();
                if got != expect {
                    drop(m2);
                    vio!(self, "serde/contents", "deserialised map holds {:?}, the stream (last value per key) gives {:?}", got, expect);
                }
                // the new map replaces the slot's map (shrunk, so that later steps stay cheap to audit)
                let mut m2 = m2;
                if m2.capacity() > 512 {
                    m2.shrink_to_fit();
                }
                let old = self.slots[si].map.replace(m2).unwrap();
                drop(old);
                self.slots[si].plan = Plan::Mixed(0);
                let act = self.actual(si);
                self.slots[si].model.e = act.into_iter().map(|x| x.0).collect::<Vec<ME>>();
            }
            Err(_) => {
                sim().probe(Probe::SerdeErrMid);
                if err_at.is_none() {
                    vio!(self, "serde/contents", "deserialising a clean stream failed");
                }
                let (live1, blocks1) = live_now();
                if live1 != live0 || blocks1 != blocks0 {
                    vio!(self, "serde/leak", "after a failed deserialisation {live1} elements / {blocks1} blocks remain live (before: {live0} / {blocks0})");
                }
            }
        }
        Ok(())
    }
}

impl<K: KeyT> SetWorld<K> {
    pub(crate) fn op_serde(&mut self, si: usize, op: &Op) -> VResult {
        let (live0, blocks0) = live_now();
        if op.k == Kd::SerdeRoundTrip {
            let mode = op.a.rem_euclid(4);
            let s = self.slots[si].set.as_ref().unwrap();
            let bytes = match self.ctx.call(op, || serde_json::to_vec(s)) {
                Out::Ok(Ok(b)) => b,
                _ => vio!(self, "serde/serialize", "serialising a set failed"),
            };
            let cut = (op.b.max(0) as usize) % (bytes.len() + 1);
            let chunk = 1 + (op.c.max(0) as usize % 7);
            let rd = FaultyReader { data: &bytes, pos: 0, mode: if mode >= 2 { (mode - 1) as u8 } else { 0 }, at: cut, chunk: if mode == 0 { usize::MAX } else { chunk } };
            let res = match self.ctx.call(op, || serde_json::from_reader::<_, SSet<K>>(rd)) {
                Out::Ok(r) => r,
                _ => vio!(self, "panic/SerdeRoundTrip", "deserialising a set panicked"),
            };
            let faulty = mode >= 2 && cut < bytes.len();
            let may_fail = faulty || mode == 2;
            match res {
                Ok(s2) => {
                    sim().probe(Probe::SerdeRoundTrip);
                    let s = self.slots[si].set.as_ref().unwrap();
                    let eq = matches!(self.ctx.call(&Op::new(Kd::Nop), || *s == s2 && s2 == *s), Out::Ok(true));
                    let mut got: Vec<u32> = s2.iter().map(|k| k.id()).collect();
                    got.sort();
                    drop(s2);
                    let mut want: Vec<u32> = self.slots[si].model.iter().map(|e| e.0).collect();
                    want.sort();
                    if faulty {
                        vio!(self, "serde/accepted-truncated", "deserialising JSON cut at byte {cut} of {} succeeded", bytes.len());
                    }
                    if got != want || !eq {
                        vio!(self, "serde/round-trip", "deserialize(serialize(set)) holds {} elements, the set {} (== says {eq})", got.len(), want.len());
                    }
                }
                Err(_) if may_fail => sim().probe(Probe::SerdeErrMid),
                Err(e) => vio!(self, "serde/round-trip", "deserialising a serialised set failed: {e}"),
            }
            let (live1, blocks1) = live_now();
            if live1 != live0 || blocks1 != blocks0 {
                vio!(self, "serde/leak", "after a set round trip {live1} elements / {blocks1} blocks remain live (before: {live0} / {blocks0})");
            }
            return Ok(());
        }
        let (items, hint, err_at) = stream_of(op, K::UNIVERSE);
        let n = items.len();
        if hint.map_or(false, |h| h != n) {
            sim().probe(Probe::SerdeLyingHint);
        }
        let mut expect: Vec<u32> = items.iter().map(|x| x.0).collect();
        expect.sort();
        expect.dedup();
        if expect.len() != n {
            sim().probe(Probe::SerdeDupKey);
        }
        let in_place = op.c.rem_euclid(2) == 1;
        let de = SimDeserializer { items, hint, err_at };
        let fails = err_at.map_or(false, |e| e < n) || err_at == Some(n);
        if in_place {
            let old_model = std::mem::take(&mut self.slots[si].model);
            let s = self.slots[si].set.as_mut().unwrap();
            let out = self.ctx.call(op, || SSet::<K>::deserialize_in_place(de, s));
            let maxreq = self.ctx.last_max_request;
            let res = match out {
                Out::Ok(r) => r,
                _ => vio!(self, "panic/SerdeStream", "deserialize_in_place panicked"),
            };
            if maxreq > RESERVE_BOUND {
                vio!(self, "serde/over-reservation", "deserialize_in_place of {n} elements with claimed length {:?} asked the allocator for {maxreq} bytes", hint);
            }
            let act = self.actual(si);
            self.slots[si].model = act.iter().map(|x| x.0).collect();
            let mut got: Vec<u32> = act.iter().map(|x| x.0 .0).collect();
            got.sort();
            match res {
                Ok(()) => {
                    if fails && err_at != Some(n) {
                        vio!(self, "serde/swallowed-error", "a stream error at element {:?} of {n} was not reported", err_at);
                    }
                    if got != expect && !fails {
                        vio!(self, "serde/contents", "deserialize_in_place left {:?}, the stream gives {:?}", got, expect);
                    }
                }
                Err(_) => {
                    sim().probe(Probe::SerdeErrMid);
                    if err_at.is_none() {
                        vio!(self, "serde/contents", "deserialize_in_place of a clean stream failed");
                    }
                    if got.iter().any(|g| !expect.contains(g)) {
                        vio!(self, "serde/contents", "after a failed deserialize_in_place the set holds an element that was not in the stream");
                    }
                }
            }
            // the previous contents were cleared: dropped exactly once
            if K::HAS_SERIAL {
                let s = sim();
                for e in &old_model {
                    if s.serial_state[e.1 as usize] == 1 {
                        drop(s);
                        vio!(self, "serde/leak", "deserialize_in_place did not drop the previous element {:?}", e);
                    }
                }
            }
            return Ok(());
        }
        let out = self.ctx.call(op, || SSet::<K>::deserialize(de));
        let maxreq = self.ctx.last_max_request;
        let res = match out {
            Out::Ok(r) => r,
            _ => vio!(self, "panic/SerdeStream", "deserialising a set panicked"),
        };
        if maxreq > RESERVE_BOUND {
            drop(res);
            vio!(self, "serde/over-reservation", "deserialising {n} elements with claimed length {:?} asked the allocator for {maxreq} bytes", hint);
        }
        match res {
            Ok(s2) => {
                let mut got: Vec<u32> = s2.iter().map(|k| k.id()).collect();
                got.sort();
                if err_at.map_or(false, |e| e < n) {
                    drop(s2);
                    vio!(self, "serde/swallowed-error", "a stream error at element {:?} of {n} was not reported", err_at);
                }
                if got != expect {
                    drop(s2);
                    vio!(self, "serde/contents", "deserialised set holds {:?}, the stream gives {:?}", got, expect);
                }
                let mut s2 = s2;
                if s2.capacity() > 512 {
                    s2.shrink_to_fit();
                }
                let old = self.slots[si].set.replace(s2).unwrap();
                drop(old);
                self.slots[si].plan = Plan::Mixed(0);
                let act = self.actual(si);
                self.slots[si].model = act.into_iter().map(|x| x.0).collect();
            }
            Err(_) => {
                sim().probe(Probe::SerdeErrMid);
                if err_at.is_none() {
                    vio!(self, "serde/contents", "deserialising a clean stream failed");
                }
                let (live1, blocks1) = live_now();
                if live1 != live0 || blocks1 != blocks0 {
                    vio!(self, "serde/leak", "after a failed deserialisation {live1} elements / {blocks1} blocks remain live (before: {live0} / {blocks0})");
                }
            }
        }
        Ok(())
    }
}
