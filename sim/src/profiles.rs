//! One profile per property: worlds, operation weights, plan mix, fault kinds, and which
//! violation classes the property owns (others are counted as foreign, not reported).

use crate::gen::{base_cfg, swarm, universe_for, Family, Gen, RunSpec, MAP_CORE};
use crate::plan::Plan;
use crate::rng::Rng;
use crate::scenario::{Kd, Violation};
use crate::state::EqMode;
use std::collections::VecDeque;

fn gen(family: Family, universe: u32, weights: Vec<(Kd, u32)>) -> Gen {
    Gen {
        family,
        universe,
        weights,
        pending: VecDeque::new(),
        n_slots: 3,
        macro_den: 30,
        allow_forget: false,
        lying_hints: false,
        toggle_pct: 40,
        refusals: false,
        entry_apis: crate::mapw_entry::N_API,
        huge_reserve: false,
        fresh_counter: 0,
        max_hint: 3000,
        no_fill: false,
        fault_pct: 0,
        big_tables: false,
        churn_draining: false,
        bands_plan: false,
        churn: None,
        order: Vec::new(),
    }
}

fn pick_world(rng: &mut Rng, ws: &[(&str, u32)]) -> String {
    let w: Vec<u32> = ws.iter().map(|x| x.1).collect();
    ws[rng.weighted(&w)].0.to_string()
}

const MAP_WORLDS: &[(&str, u32)] = &[("M16", 10), ("Mpod", 4), ("M208", 2), ("M64a", 2), ("M128a", 1), ("M5", 2), ("M6", 2), ("Mz", 2), ("Mzz", 1), ("Ms", 2)];

/// State-building operations that every map profile mixes in.
const MAP_BUILD: &[(Kd, u32)] = &[(Kd::Insert, 30), (Kd::Remove, 14), (Kd::Extend, 3), (Kd::Clear, 1), (Kd::Reserve, 1), (Kd::ShrinkTo, 1), (Kd::ShrinkToFit, 1), (Kd::WithCapacity, 1), (Kd::Get, 2), (Kd::Entry, 2), (Kd::Retain, 1)];

fn with(base: &[(Kd, u32)], extra: &[(Kd, u32)], rng: &mut Rng) -> Vec<(Kd, u32)> {
    let mut w = swarm(rng, base);
    // the property's own operations are never swarmed away
    w.extend_from_slice(extra);
    w
}

pub const TABLE_CORE: &[(Kd, u32)] = &[
    (Kd::TInsertUnique, 30),
    (Kd::TFindEntry, 14),
    (Kd::TFind, 8),
    (Kd::TFindMut, 4),
    (Kd::TRemoveReinsert, 6),
    (Kd::TEntry, 10),
    (Kd::TIterHash, 6),
    (Kd::TIterHashMut, 3),
    (Kd::TGetMany, 4),
    (Kd::Clear, 1),
    (Kd::Reserve, 2),
    (Kd::ShrinkTo, 2),
    (Kd::ShrinkToFit, 1),
    (Kd::Retain, 2),
    (Kd::ExtractIf, 2),
    (Kd::Drain, 1),
    (Kd::Iter, 3),
    (Kd::IntoIter, 1),
    (Kd::CloneTo, 1),
    (Kd::CloneFrom, 1),
    (Kd::WithCapacity, 1),
    (Kd::New, 1),
    (Kd::FillNoAlloc, 1),
];
const TABLE_BUILD: &[(Kd, u32)] = &[(Kd::TInsertUnique, 30), (Kd::TFindEntry, 14), (Kd::TFind, 2), (Kd::TEntry, 3), (Kd::Clear, 1), (Kd::Reserve, 1), (Kd::ShrinkTo, 1), (Kd::WithCapacity, 1), (Kd::Retain, 1)];
const TABLE_WORLDS: &[(&str, u32)] = &[("T24", 6), ("Tzd", 1), ("Tzp", 1), ("Tza", 1)];

/// The HashTable variant of a property's profile (None: the property has no table part).
fn table_spec(prop: &str, thorough: bool, rng: &mut Rng, universe: u32, n_ops: usize) -> Option<RunSpec> {
    let world = pick_world(rng, TABLE_WORLDS);
    let mut cfg = base_cfg(rng, 3);
    let mut n_ops = n_ops;
    let mut g = match prop {
        "C06" => gen(Family::Table, universe, swarm(rng, TABLE_CORE)),
        "C02" => {
            let mut g = gen(Family::Table, universe, with(TABLE_CORE, &[(Kd::Iter, 8), (Kd::IntoIter, 8), (Kd::Drain, 8), (Kd::ExtractIf, 8), (Kd::TEntry, 6), (Kd::TGetMany, 3)], rng));
            g.allow_forget = true;
            g
        }
        "C03" => gen(Family::Table, universe, with(TABLE_BUILD, &[(Kd::IntoIter, 8), (Kd::Drain, 6), (Kd::ExtractIf, 6), (Kd::Retain, 4), (Kd::Clear, 2), (Kd::CloneFrom, 6), (Kd::CloneTo, 2), (Kd::ShrinkTo, 3), (Kd::New, 3), (Kd::DropSlot, 2), (Kd::TRemoveReinsert, 4), (Kd::TEntry, 4)], rng)),
        "C04" => {
            n_ops = rng.range(8, if thorough { 120 } else { 80 }) as usize;
            gen(Family::Table, *rng.pick(&[12u32, 40, 64, 100]), with(TABLE_CORE, &[(Kd::CloneFrom, 4), (Kd::ExtractIf, 3), (Kd::Retain, 3), (Kd::FillNoAlloc, 2), (Kd::Reserve, 3), (Kd::ShrinkTo, 3)], rng))
        }
        "C05" => {
            cfg.functional = 0;
            cfg.callback_cap = 1_000_000;
            cfg.plans = (0..3).map(|_| if rng.below(2) == 0 { Plan::random_byz(rng) } else { Plan::random(rng) }).collect();
            cfg.eq_mode = *rng.pick(&[EqMode::Lawful, EqMode::Random, EqMode::AlwaysTrue, EqMode::AlwaysFalse, EqMode::Asym]);
            gen(Family::Table, universe.min(200), with(TABLE_CORE, &[(Kd::TGetMany, 6), (Kd::Drain, 3), (Kd::FillNoAlloc, 2)], rng))
        }
        "C08" => gen(Family::Table, universe, with(TABLE_BUILD, &[(Kd::WithCapacity, 6), (Kd::New, 2), (Kd::DropSlot, 2), (Kd::Reserve, 8), (Kd::FillNoAlloc, 8), (Kd::Clear, 4), (Kd::Drain, 4), (Kd::ShrinkTo, 8), (Kd::ShrinkToFit, 4)], rng)),
        "C09" => gen(Family::Table, universe, with(TABLE_BUILD, &[(Kd::Iter, 30), (Kd::IntoIter, 8), (Kd::Drain, 8), (Kd::TIterHash, 6)], rng)),
        "C10" => {
            let mut g = gen(Family::Table, universe, with(TABLE_BUILD, &[(Kd::Retain, 14), (Kd::ExtractIf, 16), (Kd::Drain, 12)], rng));
            g.toggle_pct = 60;
            g
        }
        "C12" => {
            let mut g = gen(Family::Table, universe, with(TABLE_BUILD, &[(Kd::TryReserve, 30)], rng));
            g.refusals = true;
            g.huge_reserve = true;
            g
        }
        "C15" => gen(Family::Table, universe.min(64), with(TABLE_BUILD, &[(Kd::TGetMany, 36)], rng)),
        _ => return None,
    };
    g.macro_den = *rng.pick(&[8, 15, 30]);
    Some(RunSpec { world, cfg, gen: g, n_ops })
}

pub const SET_CORE: &[(Kd, u32)] = &[
    (Kd::Insert, 30),
    (Kd::Remove, 12),
    (Kd::Take, 4),
    (Kd::Replace, 5),
    (Kd::GetOrInsert, 4),
    (Kd::GetOrInsertWith, 4),
    (Kd::Get, 4),
    (Kd::GetView, 2),
    (Kd::ContainsKey, 3),
    (Kd::Entry, 5),
    (Kd::Extend, 3),
    (Kd::ExtendRef, 2),
    (Kd::FromIter, 1),
    (Kd::Clear, 1),
    (Kd::Reserve, 1),
    (Kd::ShrinkTo, 1),
    (Kd::ShrinkToFit, 1),
    (Kd::Retain, 2),
    (Kd::WithCapacity, 1),
    (Kd::New, 1),
];
const SET_WORLDS: &[(&str, u32)] = &[("S8", 6), ("S24", 6), ("S1", 4), ("S2", 4), ("Sz", 1), ("Ss", 2), ("Sp", 2)];

/// The HashSet variant of a property's profile (None: the property has no set part).
fn set_spec(prop: &str, thorough: bool, rng: &mut Rng, universe: u32, n_ops: usize) -> Option<RunSpec> {
    let world = pick_world(rng, SET_WORLDS);
    let mut cfg = base_cfg(rng, 3);
    let mut n_ops = n_ops;
    let mut g = match prop {
        "C07" => {
            // equal sets with different layouts: independent plans and histories per slot
            cfg.plans = (0..3).map(|_| Plan::random(rng)).collect();
            gen(Family::Set, *rng.pick(&[4u32, 8, 16, 24, 40, 64]), with(SET_CORE, &[(Kd::SetOp, 22), (Kd::SetOpAssign, 14), (Kd::SetPred, 10), (Kd::EqSlots, 3), (Kd::Replace, 3), (Kd::GetOrInsertWith, 3), (Kd::CloneTo, 2), (Kd::Extend, 4)], rng))
        }
        "C02" => {
            let mut g = gen(Family::Set, universe, with(SET_CORE, &[(Kd::Iter, 6), (Kd::IntoIter, 8), (Kd::Drain, 8), (Kd::ExtractIf, 8), (Kd::Entry, 4), (Kd::SetOp, 4), (Kd::SetOpAssign, 4)], rng));
            g.allow_forget = true;
            g
        }
        "C03" => gen(Family::Set, universe, with(SET_CORE, &[(Kd::IntoIter, 8), (Kd::Drain, 6), (Kd::ExtractIf, 6), (Kd::Retain, 4), (Kd::CloneFrom, 6), (Kd::Replace, 4), (Kd::Take, 4), (Kd::SetOpAssign, 6), (Kd::DropSlot, 2)], rng)),
        "C04" => {
            n_ops = rng.range(8, if thorough { 120 } else { 80 }) as usize;
            gen(Family::Set, *rng.pick(&[12u32, 40, 64, 100]), with(SET_CORE, &[(Kd::CloneFrom, 4), (Kd::ExtractIf, 3), (Kd::Retain, 3), (Kd::FillNoAlloc, 2), (Kd::SetOpAssign, 6), (Kd::SetOp, 3), (Kd::Extend, 3)], rng))
        }
        "C05" => {
            cfg.functional = 0;
            cfg.callback_cap = 1_000_000;
            match rng.below(3) {
                0 => cfg.plans = (0..3).map(|_| Plan::random_byz(rng)).collect(),
                1 => cfg.eq_mode = *rng.pick(&[EqMode::Random, EqMode::AlwaysTrue, EqMode::AlwaysFalse, EqMode::Asym]),
                _ => {
                    cfg.plans = (0..3).map(|_| Plan::random_byz(rng)).collect();
                    cfg.eq_mode = *rng.pick(&[EqMode::Random, EqMode::AlwaysTrue, EqMode::AlwaysFalse, EqMode::Asym]);
                }
            }
            gen(Family::Set, universe.min(200), with(SET_CORE, &[(Kd::GetOrInsertWith, 8), (Kd::GetOrInsert, 6), (Kd::Replace, 6), (Kd::SetOpAssign, 6), (Kd::SetOp, 4), (Kd::Drain, 3), (Kd::ExtractIf, 2), (Kd::Entry, 6), (Kd::FillNoAlloc, 2)], rng))
        }
        "C08" => gen(Family::Set, universe, with(SET_CORE, &[(Kd::WithCapacity, 6), (Kd::New, 2), (Kd::DropSlot, 2), (Kd::Reserve, 8), (Kd::FillNoAlloc, 8), (Kd::Clear, 4), (Kd::Drain, 4), (Kd::ShrinkTo, 8), (Kd::ShrinkToFit, 4)], rng)),
        "C09" => gen(Family::Set, universe, with(SET_CORE, &[(Kd::Iter, 30), (Kd::IntoIter, 8), (Kd::Drain, 8)], rng)),
        "C12" => {
            let mut g = gen(Family::Set, universe, with(SET_CORE, &[(Kd::TryReserve, 30)], rng));
            g.refusals = true;
            g.huge_reserve = true;
            g
        }
        "C14" => gen(Family::Set, universe, with(SET_CORE, &[(Kd::Entry, 50), (Kd::FillNoAlloc, 5), (Kd::New, 2)], rng)),
        "C10" => gen(Family::Set, universe, with(SET_CORE, &[(Kd::Retain, 14), (Kd::ExtractIf, 16), (Kd::Drain, 12)], rng)),
        "C11" => {
            cfg.plans = (0..3).map(|_| Plan::random(rng)).collect();
            gen(Family::Set, universe.min(64), with(SET_CORE, &[(Kd::CloneTo, 8), (Kd::CloneFrom, 16), (Kd::EqSlots, 14)], rng))
        }
        _ => return None,
    };
    g.macro_den = *rng.pick(&[8, 15, 30]);
    Some(RunSpec { world, cfg, gen: g, n_ops })
}

fn set_share(prop: &str) -> u64 {
    match prop {
        "C07" => 100,
        "C02" | "C03" | "C04" | "C05" | "C08" | "C09" | "C10" | "C11" | "C12" | "C14" => 15,
        _ => 0,
    }
}

/// Share (percent) of a property's runs that go to the HashTable worlds.
fn table_share(prop: &str) -> u64 {
    match prop {
        "C06" => 100,
        "C02" | "C03" | "C04" | "C05" | "C08" | "C09" | "C10" | "C12" | "C15" => 25,
        _ => 0,
    }
}

/// Builds the run specification of one simulated run of `prop`.
pub fn spec_for(prop: &str, thorough: bool, rng: &mut Rng) -> RunSpec {
    let mut spec = spec_for_inner(prop, thorough, rng);
    spec.gen.bands_plan = matches!(spec.cfg.plans.first(), Some(Plan::Bands { .. }));
    if cfg!(miri) {
        // the interpreter is ~1000x slower: short histories over a small key universe
        spec.n_ops = spec.n_ops.min(24);
        spec.gen.universe = spec.gen.universe.min(24);
        spec.cfg.sweep_below = 12;
    }
    spec
}

fn spec_for_inner(prop: &str, thorough: bool, rng: &mut Rng) -> RunSpec {
    let universe = universe_for(rng, thorough);
    if rng.below(100) < set_share(prop) {
        let n_ops = if thorough { rng.range(10, 400) } else { rng.range(10, 220) } as usize;
        if let Some(s) = set_spec(prop, thorough, rng, universe, n_ops) {
            return s;
        }
    }
    if rng.below(100) < table_share(prop) {
        let n_ops = if thorough { rng.range(10, 400) } else { rng.range(10, 220) } as usize;
        if let Some(s) = table_spec(prop, thorough, rng, universe, n_ops) {
            return s;
        }
    }
    let n_ops = if thorough { rng.range(10, 400) } else { rng.range(10, 220) } as usize;
    match prop {
        "C01" => {
            let world = pick_world(rng, MAP_WORLDS);
            let cfg = base_cfg(rng, 3);
            let mut g = gen(Family::Map, universe, swarm(rng, MAP_CORE));
            g.macro_den = *rng.pick(&[12, 25, 50]);
            RunSpec { world, cfg, gen: g, n_ops }
        }
        "C02" => {
            // safety monitors under cancellation: every iterator/drain/extract_if/entry may be dropped or
            // forgotten part-way; lying size hints; all layouts
            let world = pick_world(rng, &[("M16", 3), ("Mpod", 2), ("M208", 2), ("M64a", 2), ("M128a", 2), ("M5", 1), ("M6", 1), ("Mz", 1), ("Ms", 1)]);
            let cfg = base_cfg(rng, 3);
            let mut g = gen(Family::Map, universe, with(MAP_CORE, &[(Kd::Iter, 8), (Kd::IntoIter, 8), (Kd::Drain, 8), (Kd::ExtractIf, 8), (Kd::Entry, 6), (Kd::Extend, 4), (Kd::CloneFrom, 2), (Kd::GetMany, 2), (Kd::FillNoAlloc, 1)], rng));
            g.allow_forget = true;
            g.lying_hints = true;
            g.max_hint = if world == "M16" || world == "Mpod" { 60000 } else { 3000 };
            g.macro_den = *rng.pick(&[12, 25]);
            // "every program" includes programs whose callbacks panic and that go on using the collection
            // (catch_unwind is safe code): a fifth of the runs carry random callback panics
            if rng.below(5) == 0 {
                g.fault_pct = 8;
            }
            RunSpec { world, cfg, gen: g, n_ops }
        }
        "C03" => {
            let world = pick_world(rng, &[("M16", 5), ("M208", 2), ("M64a", 2), ("Mpod", 1)]);
            let cfg = base_cfg(rng, 3);
            let mut g = gen(Family::Map, universe, with(MAP_BUILD, &[(Kd::IntoIter, 8), (Kd::Drain, 6), (Kd::ExtractIf, 6), (Kd::Retain, 4), (Kd::Clear, 2), (Kd::CloneFrom, 6), (Kd::CloneTo, 2), (Kd::ShrinkTo, 3), (Kd::ShrinkToFit, 2), (Kd::New, 3), (Kd::DropSlot, 2), (Kd::RemoveEntry, 4), (Kd::Insert, 10), (Kd::Entry, 4)], rng));
            g.macro_den = *rng.pick(&[12, 25]);
            // a quarter of the runs also let elements leave under unwinding (a callback panics mid-operation)
            if rng.below(4) == 0 {
                g.fault_pct = 8;
            }
            RunSpec { world, cfg, gen: g, n_ops }
        }
        "C04" => {
            // short histories (each is re-executed once per injected panic), biased to re-hashing states
            let world = pick_world(rng, &[("M16", 4), ("Mpod", 4), ("M208", 1)]);
            let cfg = base_cfg(rng, 3);
            let mut w = swarm(rng, MAP_CORE);
            w.extend_from_slice(&[(Kd::CloneTo, 3), (Kd::CloneFrom, 6), (Kd::ExtractIf, 3), (Kd::Drain, 2), (Kd::Iter, 2), (Kd::IntoIter, 2), (Kd::Extend, 4), (Kd::Retain, 3), (Kd::FillNoAlloc, 2)]);
            let mut g = gen(Family::Map, *rng.pick(&[12u32, 40, 64, 64, 100]), w);
            g.macro_den = *rng.pick(&[6, 10, 20]);
            let n_ops = rng.range(8, if thorough { 120 } else { 80 }) as usize;
            RunSpec { world, cfg, gen: g, n_ops }
        }
        "C05" => {
            // byzantine Hash and/or Eq for the whole run; safety subset of the oracles only
            let world = pick_world(rng, &[("M16", 5), ("Mpod", 3), ("M208", 1)]);
            let mut cfg = base_cfg(rng, 3);
            cfg.functional = 0;
            cfg.callback_cap = 1_000_000;
            match rng.below(3) {
                0 => {
                    cfg.plans = (0..3).map(|_| Plan::random_byz(rng)).collect();
                }
                1 => {
                    cfg.eq_mode = *rng.pick(&[EqMode::Random, EqMode::AlwaysTrue, EqMode::AlwaysFalse, EqMode::Asym]);
                }
                _ => {
                    cfg.plans = (0..3).map(|_| Plan::random_byz(rng)).collect();
                    cfg.eq_mode = *rng.pick(&[EqMode::Random, EqMode::AlwaysTrue, EqMode::AlwaysFalse, EqMode::Asym]);
                }
            }
            let mut g = gen(Family::Map, universe.min(200), with(MAP_CORE, &[(Kd::Iter, 2), (Kd::Drain, 3), (Kd::ExtractIf, 2), (Kd::GetMany, 4), (Kd::GetManyKv, 2), (Kd::CloneFrom, 2), (Kd::IntoIter, 2), (Kd::FillNoAlloc, 2), (Kd::Entry, 6)], rng));
            g.macro_den = *rng.pick(&[10, 20]);
            RunSpec { world, cfg, gen: g, n_ops }
        }
        "C08" => {
            let world = pick_world(rng, MAP_WORLDS);
            let cfg = base_cfg(rng, 3);
            let mut g = gen(Family::Map, universe, with(MAP_BUILD, &[(Kd::WithCapacity, 6), (Kd::New, 2), (Kd::DropSlot, 2), (Kd::Reserve, 8), (Kd::FillNoAlloc, 8), (Kd::Clear, 4), (Kd::Drain, 4), (Kd::ShrinkTo, 8), (Kd::ShrinkToFit, 4), (Kd::Remove, 10), (Kd::Extend, 4), (Kd::Par, 3)], rng));
            g.macro_den = *rng.pick(&[10, 20]);
            RunSpec { world, cfg, gen: g, n_ops }
        }
        "C09" => {
            let world = pick_world(rng, MAP_WORLDS);
            let cfg = base_cfg(rng, 3);
            let mut g = gen(Family::Map, universe, with(MAP_BUILD, &[(Kd::Iter, 30), (Kd::IntoIter, 10), (Kd::Drain, 8)], rng));
            g.macro_den = *rng.pick(&[10, 20]);
            let mut n_ops = n_ops;
            if rng.below(12) == 0 && !["M208", "M64a", "M128a"].contains(&world.as_str()) {
                // short histories that may contain a mostly empty table of 131 072 buckets
                g.big_tables = true;
                g.weights.push((Kd::WithCapacity, 12));
                g.weights.push((Kd::Extend, 8));
                n_ops = n_ops.min(40);
            }
            RunSpec { world, cfg, gen: g, n_ops }
        }
        "C10" => {
            let world = pick_world(rng, MAP_WORLDS);
            let cfg = base_cfg(rng, 3);
            let mut g = gen(Family::Map, universe, with(MAP_BUILD, &[(Kd::Retain, 14), (Kd::ExtractIf, 16), (Kd::Drain, 12)], rng));
            g.toggle_pct = 60;
            g.macro_den = *rng.pick(&[10, 20]);
            let mut n_ops = n_ops;
            if rng.below(12) == 0 && ["M16", "Mpod", "Mz"].contains(&world.as_str()) {
                // short histories on tables of more than 2^16 occupied buckets
                g.big_tables = true;
                g.weights.push((Kd::Extend, 12));
                n_ops = n_ops.min(30);
            }
            RunSpec { world, cfg, gen: g, n_ops }
        }
        "C11" => {
            let world = pick_world(rng, &[("M16", 5), ("M208", 2), ("M64a", 1), ("Mpod", 1)]);
            let mut cfg = base_cfg(rng, 3);
            // differently seeded hashers per slot
            cfg.plans = (0..3).map(|_| Plan::random(rng)).collect();
            let mut g = gen(Family::Map, universe.min(100), with(MAP_BUILD, &[(Kd::CloneTo, 8), (Kd::CloneFrom, 16), (Kd::EqSlots, 14), (Kd::GetMut, 3)], rng));
            g.macro_den = *rng.pick(&[10, 20]);
            RunSpec { world, cfg, gen: g, n_ops }
        }
        "C12" => {
            let world = pick_world(rng, MAP_WORLDS);
            let cfg = base_cfg(rng, 3);
            let mut g = gen(Family::Map, universe, with(MAP_BUILD, &[(Kd::TryReserve, 30)], rng));
            g.refusals = true;
            g.huge_reserve = true;
            g.macro_den = *rng.pick(&[10, 20]);
            RunSpec { world, cfg, gen: g, n_ops }
        }
        "C13" => {
            // long churn with bounded live size, no explicit reservation
            let world = pick_world(rng, &[("M16", 3), ("Mpod", 3), ("M208", 1)]);
            let mut cfg = base_cfg(rng, 3);
            let p = match rng.below(8) {
                0 | 1 | 2 => Plan::Seq,
                3 => Plan::SeqTag { stride: 1, offset: rng.below(64) as u32, tags: vec![rng.below(128) as u8] },
                4 => Plan::PosTag { pos: (0..*rng.pick(&[1usize, 2, 3, 16])).map(|_| rng.below(4096) as u32).collect(), tags: vec![], layer: 57, seed: rng.next() },
                5 => rng.pick(&[Plan::Const0, Plan::ConstMax]).clone(),
                _ => Plan::Mixed(rng.next()),
            };
            cfg.plans = vec![p.clone(), p.clone(), p];
            cfg.churn_bound = 8;
            cfg.callback_cap = 5_000_000;
            let n = *rng.pick(&[1usize, 2, 3, 6, 7, 13, 14, 27, 28, 29, 50, 56, 100, 200]);
            cfg.sweep_below = if n <= 30 { 48 } else { 0 };
            // a quarter of the histories churn a HashTable (insert_unique / find_entry().remove() / find / iter_hash)
            let table = rng.below(4) == 0;
            let world = if table { "T24".to_string() } else { world };
            let mut g = gen(if table { Family::Table } else { Family::Map }, 64, vec![(Kd::Insert, 1)]);
            g.macro_den = 0;
            g.churn = Some((n, rng.below(4) as u8));
            let n_ops = if thorough { *rng.pick(&[5000usize, 5000, 20000, 100000]) } else { *rng.pick(&[2000usize, 5000, 5000]) };
            RunSpec { world, cfg, gen: g, n_ops }
        }
        "C18" => {
            // the same scenario must mean the same under both group widths: no capacity-dependent
            // composite operations; tag sets steer reached groups onto the carry-sensitive neighbours
            // maps only: with duplicates and partially consumed iterators a HashTable history legitimately
            // depends on the bucket layout, which differs between group widths
            // a fifth of the scenarios are HashTable histories after all: they are replayed under the second back-end
            // too, but judged there by the reference model only (no transcript comparison, see runner.rs)
            let table = rng.below(5) == 0;
            let world = if table { pick_world(rng, &[("T24", 5), ("Tzd", 1)]) } else { pick_world(rng, &[("M16", 6), ("Mpod", 4), ("Mzz", 1)]) };
            let mut cfg = base_cfg(rng, 3);
            cfg.group_monitor = true;
            if rng.below(2) == 0 {
                let t = rng.below(128) as u8;
                let tags = rng.pick(&[vec![t, t ^ 1], vec![0x00, 0x01], vec![0x7e, 0x7f], vec![t]]).clone();
                let p = if rng.below(2) == 0 {
                    Plan::SeqTag { stride: 1, offset: rng.below(64) as u32, tags }
                } else {
                    Plan::PosTag { pos: (0..*rng.pick(&[1usize, 2, 3, 8])).map(|_| rng.below(4096) as u32).collect(), tags, layer: *rng.pick(&[57u8, 4, 5]), seed: rng.next() }
                };
                cfg.plans = vec![p.clone(), p.clone(), p];
            }
            let base: Vec<(Kd, u32)> = if table { TABLE_CORE.iter().copied().filter(|x| x.0 != Kd::FillNoAlloc).collect() } else { MAP_CORE.to_vec() };
            let mut g = gen(if table { Family::Table } else { Family::Map }, universe, swarm(rng, &base));
            g.no_fill = true;
            g.macro_den = *rng.pick(&[10, 20]);
            RunSpec { world, cfg, gen: g, n_ops }
        }
        "C19" => {
            let fam = rng.below(10);
            let (family, world, base): (Family, String, &[(Kd, u32)]) = if fam < 5 {
                (Family::Map, pick_world(rng, &[("M16", 4), ("Mpod", 1), ("M208", 1)]), MAP_BUILD)
            } else if fam < 8 {
                (Family::Set, pick_world(rng, &[("S8", 2), ("S24", 2), ("S1", 1)]), SET_CORE)
            } else {
                (Family::Table, pick_world(rng, &[("T24", 3), ("Tzd", 1)]), TABLE_BUILD)
            };
            let mut cfg = base_cfg(rng, 3);
            cfg.sweep_below = 24;
            // tables from a few buckets to several thousand, so that split trees get deep
            let uni = *rng.pick(&[8u32, 24, 64, 200, 600, 2000]);
            let mut g = gen(family, uni, with(base, &[(Kd::Par, 45), (Kd::Extend, if family == Family::Table { 0 } else { 10 }), (Kd::FillNoAlloc, 4)], rng));
            g.macro_den = *rng.pick(&[8, 15]);
            RunSpec { world, cfg, gen: g, n_ops: n_ops.min(90) }
        }
        "C20" => {
            // any map/set reached by a history, serialised and read back (cleanly and through a faulty
            // reader), and streams with repeated keys, lying lengths and an error at element k
            let set = rng.below(3) == 0;
            let world = if set { pick_world(rng, &[("S8", 3), ("S24", 3), ("S1", 2), ("Sz", 1)]) } else { pick_world(rng, &[("M16", 6), ("Mpod", 3), ("M208", 2), ("Mz", 1), ("Mzz", 1)]) };
            let cfg = base_cfg(rng, 3);
            let base = if set { SET_CORE } else { MAP_BUILD };
            let mut g = gen(if set { Family::Set } else { Family::Map }, universe.min(200), with(base, &[(Kd::SerdeRoundTrip, 14), (Kd::SerdeStream, 24)], rng));
            g.macro_den = *rng.pick(&[10, 20]);
            RunSpec { world, cfg, gen: g, n_ops: n_ops.min(120) }
        }
        "C14" => {
            let world = pick_world(rng, MAP_WORLDS);
            let cfg = base_cfg(rng, 3);
            let mut g = gen(Family::Map, universe, with(MAP_BUILD, &[(Kd::Entry, 50), (Kd::FillNoAlloc, 5), (Kd::New, 2)], rng));
            g.macro_den = *rng.pick(&[6, 10, 20]);
            RunSpec { world, cfg, gen: g, n_ops }
        }
        "C15" => {
            let world = pick_world(rng, &[("M16", 5), ("Mpod", 2), ("M208", 1), ("M64a", 1), ("Mz", 2), ("Ms", 3)]);
            let mut cfg = base_cfg(rng, 3);
            if rng.below(3) == 0 {
                // an equality that matches several entries: only "never alias" is then checked
                cfg.eq_mode = *rng.pick(&[EqMode::AlwaysTrue, EqMode::Random]);
                cfg.functional = 0;
            }
            let mut g = gen(Family::Map, universe.min(64), with(MAP_BUILD, &[(Kd::GetMany, 24), (Kd::GetManyKv, 12)], rng));
            g.macro_den = *rng.pick(&[10, 20]);
            RunSpec { world, cfg, gen: g, n_ops }
        }
        _ => {
            let world = pick_world(rng, MAP_WORLDS);
            let cfg = base_cfg(rng, 3);
            let g = gen(Family::Map, universe, swarm(rng, MAP_CORE));
            RunSpec { world, cfg, gen: g, n_ops }
        }
    }
}

fn starts(c: &str, p: &str) -> bool {
    c.starts_with(p)
}

const MAP_CORE_OPS: &[&str] = &["Insert", "TryInsert", "Get", "GetMut", "GetView", "ContainsKey", "GetKeyValue", "GetKeyValueMut", "Remove", "RemoveEntry", "RemoveView", "Entry", "Extend", "ExtendRef", "FromIter", "Clear", "Reserve", "ShrinkTo", "ShrinkToFit", "Retain", "FillNoAlloc", "Finish", "New", "WithCapacity", "DropSlot"];

/// Does `prop` own a violation of this class raised by this kind of operation?
pub fn owns(prop: &str, v: &Violation) -> bool {
    let c = v.class.as_str();
    let k = v.op_kind.as_str();
    // memory-safety monitors: structure invariants, ledger (double drop, dead reference), canaries, crashes
    let safety = starts(c, "inv/") || starts(c, "ledger/invalid-ref") || starts(c, "ledger/double-drop") || starts(c, "ledger/drop-unknown") || starts(c, "ledger/corrupt") || starts(c, "alloc/canary") || starts(c, "alloc/use-after-free") || starts(c, "alloc/bad-free") || starts(c, "alloc/double-free") || starts(c, "alloc/invalid-layout") || starts(c, "alloc/layout-mismatch") || starts(c, "alloc/wrong-allocator") || starts(c, "crash/") || starts(c, "hang/");
    // functional disagreement with the reference model, attributed by the kind of the failing operation
    let functional = starts(c, "ret/") || starts(c, "contents/") || starts(c, "len/") || starts(c, "sweep/") || starts(c, "panic/") || starts(c, "hang/probe-");
    match prop {
        // the structural invariants are the state form of the functional statement: the property quantifies over
        // every hasher, and for a control byte that disagrees with its mirror (or a count that disagrees with
        // the control bytes) there is a key and hasher whose lookup answers wrongly
        "C01" => (functional || starts(c, "entry/") || starts(c, "retain/visits") || starts(c, "inv/")) && MAP_CORE_OPS.contains(&k),
        // (a dead element that is still stored after an unwind is a dangling reference waiting to be handed out)
        "C02" => safety || starts(c, "getmany/alias") || starts(c, "postpanic/dead-element") || starts(c, "panic/") || starts(c, "alloc/size-mismatch") || starts(c, "alloc/over-reservation"),
        // an element that is still stored after it was dropped, or that vanished without being dropped, while a
        // callback panic unwinds is the exactly-once statement under unwinding
        "C03" => starts(c, "inv/I2") || starts(c, "postpanic/dead-element") || starts(c, "postpanic/leaked-element") || starts(c, "ledger/") || starts(c, "alloc/leak") || starts(c, "alloc/double-free") || starts(c, "alloc/bad-free") || starts(c, "alloc/layout-mismatch") || starts(c, "alloc/wrong-allocator") || starts(c, "alloc/size-mismatch") || starts(c, "cap/alloc-on-new"),
        "C04" => starts(c, "postpanic/") || safety || starts(c, "alloc/") || starts(c, "ledger/"),
        "C05" => safety || starts(c, "diverge/") || starts(c, "byz/") || starts(c, "ledger/") || starts(c, "alloc/") || starts(c, "getmany/alias") || starts(c, "panic/"),
        "C06" => starts(c, "inv/") || functional || starts(c, "entry/") || starts(c, "iterhash/") || starts(c, "reinsert/") || starts(c, "retain/") || starts(c, "extract/") || starts(c, "drain/yield") || starts(c, "iterlen/") || starts(c, "getmany/"),
        "C07" => starts(c, "inv/") || functional || starts(c, "setalg/") || starts(c, "set/") || starts(c, "entry/"),
        "C08" => starts(c, "inv/I6") || starts(c, "cap/") || starts(c, "drain/allocation") || starts(c, "alloc/size-mismatch"),
        "C09" => starts(c, "iter/") || starts(c, "iterlen/") || (functional && ["Iter", "IntoIter", "SetIter", "TIter"].contains(&k)),
        "C10" => ((starts(c, "inv/I6") || starts(c, "iterlen/")) && ["Retain", "ExtractIf", "Drain"].contains(&k)) || starts(c, "retain/") || starts(c, "extract/") || starts(c, "drain/") || (functional && ["Retain", "ExtractIf", "Drain"].contains(&k)),
        "C11" => starts(c, "clone/") || starts(c, "eq/") || (["CloneTo", "CloneFrom"].contains(&k) && (starts(c, "ledger/") || starts(c, "inv/"))) || (functional && ["CloneTo", "CloneFrom", "EqSlots"].contains(&k)),
        "C12" => starts(c, "tryreserve/") || starts(c, "alloc/invalid-layout") || (k == "TryReserve" && starts(c, "alloc/over-reservation")) || (k == "TryReserve" && (functional || starts(c, "ledger/") || starts(c, "alloc/") || starts(c, "inv/"))),
        "C13" => starts(c, "churn/") || starts(c, "inv/I4") || starts(c, "inv/I6") || starts(c, "hang/") || starts(c, "diverge/"),
        "C14" => starts(c, "entry/") || (k == "Entry" && (functional || starts(c, "inv/"))),
        "C19" => starts(c, "par/") || (k == "Par" && (functional || starts(c, "ledger/") || starts(c, "alloc/") || starts(c, "inv/"))),
        "C20" => starts(c, "serde/") || starts(c, "alloc/over-reservation") || (["SerdeRoundTrip", "SerdeStream"].contains(&k) && (functional || starts(c, "ledger/") || starts(c, "alloc/") || starts(c, "inv/"))),
        "C18" => starts(c, "group/") || starts(c, "differential/") || functional || starts(c, "entry/") || starts(c, "inv/") || starts(c, "iterhash/") || starts(c, "retain/") || starts(c, "extract/") || starts(c, "drain/") || starts(c, "reinsert/") || starts(c, "getmany/") || starts(c, "iterlen/") || starts(c, "iter/"),
        "C15" => starts(c, "getmany/") || (functional && ["GetMany", "GetManyKv", "TGetMany"].contains(&k)),
        _ => true,
    }
}
