//! One profile per property: worlds, operation weights, plan mix, fault kinds, and which
//! violation classes the property owns (others are counted as foreign, not reported).

use crate::gen::{base_cfg, swarm, universe_for, Family, Gen, RunSpec, MAP_CORE};
use crate::plan::Plan;
use crate::rng::Rng;
use crate::scenario::{Violation, Kd};
use crate::state::EqMode;
use std::collections::VecDeque;

pub const CLAIMED: &[&str] = &["C01", "C02", "C03", "C04", "C05", "C06", "C07", "C08", "C09", "C10", "C11", "C12", "C13", "C14", "C15", "C18", "C19", "C20"];

fn gen(family: Family, universe: u32, weights: Vec<(Kd, u32)>) -> Gen {
    Gen {
        family,
        universe,
        weights,
        pending: VecDeque::new(),
        n_slots: 3,
        macro_den: 30,
        allow_forget: false,
        lying_hints: false,
        toggle_pct: 40,
        refusals: false,
        entry_apis: crate::mapw_entry::N_API,
        huge_reserve: false,
        fresh_counter: 0,
    }
}

fn pick_world(rng: &mut Rng, ws: &[(&str, u32)]) -> String {
    let w: Vec<u32> = ws.iter().map(|x| x.1).collect();
    ws[rng.weighted(&w)].0.to_string()
}

const MAP_WORLDS: &[(&str, u32)] = &[("M16", 5), ("Mpod", 2), ("M208", 1), ("M64a", 1)];

/// Builds the run specification of one simulated run of `prop`.
pub fn spec_for(prop: &str, thorough: bool, rng: &mut Rng) -> RunSpec {
    let universe = universe_for(rng, thorough);
    let n_ops = if thorough { rng.range(10, 400) } else { rng.range(10, 220) } as usize;
    match prop {
        "C01" => {
            let world = pick_world(rng, MAP_WORLDS);
            let cfg = base_cfg(rng, 3);
            let mut g = gen(Family::Map, universe, swarm(rng, MAP_CORE));
            g.macro_den = *rng.pick(&[12, 25, 50]);
            RunSpec { world, cfg, gen: g, n_ops }
        }
        "C04" => {
            // short histories (each is re-executed once per injected panic), biased to re-hashing states
            let world = pick_world(rng, &[("M16", 4), ("Mpod", 4), ("M208", 1)]);
            let cfg = base_cfg(rng, 3);
            let mut w = swarm(rng, MAP_CORE);
            w.extend_from_slice(&[(Kd::CloneTo, 3), (Kd::CloneFrom, 6), (Kd::ExtractIf, 3), (Kd::Drain, 2), (Kd::Iter, 2), (Kd::IntoIter, 2), (Kd::Extend, 4), (Kd::Retain, 3), (Kd::FillNoAlloc, 2)]);
            let mut g = gen(Family::Map, *rng.pick(&[12u32, 40, 64, 64, 100]), w);
            g.macro_den = *rng.pick(&[6, 10, 20]);
            let n_ops = rng.range(8, if thorough { 120 } else { 80 }) as usize;
            RunSpec { world, cfg, gen: g, n_ops }
        }
        _ => {
            let world = pick_world(rng, MAP_WORLDS);
            let cfg = base_cfg(rng, 3);
            let g = gen(Family::Map, universe, swarm(rng, MAP_CORE));
            RunSpec { world, cfg, gen: g, n_ops }
        }
    }
}

fn starts(c: &str, p: &str) -> bool {
    c.starts_with(p)
}

/// Does `prop` own a violation of this class raised by this kind of operation?
pub fn owns(prop: &str, v: &Violation) -> bool {
    let c = v.class.as_str();
    let k = v.op_kind.as_str();
    let safety = starts(c, "inv/") || starts(c, "ledger/invalid-ref") || starts(c, "ledger/double-drop") || starts(c, "ledger/drop-unknown") || starts(c, "ledger/corrupt") || starts(c, "alloc/canary") || starts(c, "alloc/use-after-free") || starts(c, "alloc/bad-free") || starts(c, "alloc/double-free") || starts(c, "alloc/invalid-layout") || starts(c, "crash/") || starts(c, "hang/");
    let map_core = ["Insert", "TryInsert", "Get", "GetMut", "GetView", "ContainsKey", "GetKeyValue", "GetKeyValueMut", "Remove", "RemoveEntry", "RemoveView", "Entry", "Extend", "ExtendRef", "FromIter", "Clear", "Reserve", "ShrinkTo", "ShrinkToFit", "Retain", "FillNoAlloc", "Finish", "New", "WithCapacity", "DropSlot"];
    let functional = starts(c, "ret/") || starts(c, "contents/") || starts(c, "len/") || starts(c, "sweep/") || starts(c, "panic/") || starts(c, "entry/") || starts(c, "retain/");
    match prop {
        "C01" => functional && map_core.contains(&k),
        "C02" => safety || starts(c, "panic/") || starts(c, "alloc/size-mismatch"),
        "C03" => starts(c, "ledger/") || starts(c, "alloc/leak") || starts(c, "alloc/double-free") || starts(c, "alloc/bad-free") || starts(c, "alloc/layout-mismatch") || starts(c, "alloc/size-mismatch") || starts(c, "cap/alloc-on-new"),
        "C04" => starts(c, "postpanic/") || safety || starts(c, "alloc/") || starts(c, "ledger/"),
        _ => true,
    }
}

#[allow(dead_code)]
fn _keep(_: Plan, _: EqMode) {}
