//! C19: the rayon adaptors of maps, sets and tables, driven through the simulator-owned bridge
//! (sim-rayon) under a recorded decision list: split tree, order in which pending subtrees run,
//! rayon-like split budgets for pool sizes 1..64, early-stopping and panicking consumers.

use crate::alloc::SimAlloc;
use crate::ctx::{Out, VResult};
use crate::elem::{ElemT, KeyT, ValT};
use crate::mapw::{MapWorld, SMap, ME, TOGGLE};
use crate::plan::SimBuildHasher;
use crate::scenario::Op;
use crate::setw::{SSet, SetWorld, SE};
use crate::state::{sim, Class, Probe, SimPanic};
use crate::tablew::{TableWorld, TE, TTOGGLE};
use hashbrown::{HashMap, HashSet};
use rayon::prelude::*;
use std::collections::BTreeSet;
use std::sync::atomic::{AtomicUsize, Ordering};
use std::sync::Mutex;

macro_rules! vio {
    ($self:ident, $class:expr, $($arg:tt)*) => {
        return Err($self.ctx.violation(&$class, format!($($arg)*)))
    };
}

fn init_pool() {
    static ONCE: std::sync::Once = std::sync::Once::new();
    // rayon's own adaptors (indexed sources, join) run on the real pool: pin it to one thread so that
    // they add no uncontrolled parallelism
    ONCE.call_once(|| {
        let _ = rayon::ThreadPoolBuilder::new().num_threads(1).build_global();
    });
}

/// Installs the schedule of an operation: v = decision list, c = pool mode (0 free, else pool size).
fn install(op: &Op) {
    init_pool();
    let pool = match op.c.rem_euclid(4) {
        0 | 1 => 0,
        2 => 1 + (op.c as u32 / 4) % 8,
        _ => 1 + (op.c as u32 / 4) % 64,
    };
    rayon::sim::install(op.v.iter().map(|&x| x as u64).collect(), pool);
}

fn finish_schedule(ctx: &mut crate::ctx::RunCtx) -> rayon::sim::Stats {
    let st = rayon::sim::uninstall();
    // the split-tree shape and leaf order are part of the run signature (distinct schedules are counted)
    ctx.sig.add(st.shape);
    ctx.nontrivial = true;
    let mut s = sim();
    for _ in 0..st.splits.min(1) {
        s.probe(Probe::ParSplit);
    }
    if st.out_of_order > 0 {
        s.probe(Probe::ParSteal);
    }
    if st.max_depth >= 3 {
        s.probe(Probe::ParDepth3);
    }
    if st.leaf_panics > 0 {
        s.probe(Probe::ParConsumerPanic);
    }
    if st.full_at_node > 0 {
        s.probe(Probe::ParEarlyStop);
    }
    s.digest.add(st.shape);
    st
}

fn sorted<T: Ord>(mut v: Vec<T>) -> Vec<T> {
    v.sort();
    v
}

fn has_dup<T: Ord + Clone>(v: &[T]) -> bool {
    let mut s = v.to_vec();
    s.sort();
    s.windows(2).any(|w| w[0] == w[1])
}

fn panic_at(counter: &AtomicUsize, k: usize) {
    if counter.fetch_add(1, Ordering::SeqCst) + 1 == k {
        std::panic::panic_any(SimPanic(Class::Consume));
    }
}

// ------------------------------------------------------------------------------------------ maps
impl<K: KeyT, V: ValT> MapWorld<K, V> {
    /// a >= 1000: a parallel drain that is created and dropped without being driven (clears the map), and clones
    /// of the borrowing parallel iterators.
    fn op_par_extra(&mut self, si: usize, op: &Op) -> VResult {
        let which = (op.a - 1000).rem_euclid(2);
        let full: Vec<ME> = self.slots[si].model.sorted();
        let size0 = self.map(si).allocation_size();
        let class = format!("par/extra{which}");
        let me = |k: &K, v: &V| ME { kid: k.id(), ks: k.serial(), v: v.val(), vs: v.serial() };
        install(op);
        if which == 0 {
            let m = self.slots[si].map.as_mut().unwrap();
            let out = self.ctx.call(op, || drop(m.par_drain()));
            finish_schedule(&mut self.ctx);
            if !matches!(out, Out::Ok(())) {
                vio!(self, class, "dropping an undriven par_drain panicked");
            }
            self.ctx.drain_callback_violations()?;
            {
                let s = sim();
                for e in &full {
                    if (K::HAS_SERIAL && s.serial_state[e.ks as usize] == 1) || (V::HAS_SERIAL && s.serial_state[e.vs as usize] == 1) {
                        drop(s);
                        vio!(self, "ledger/leak", "after an undriven par_drain was dropped entry ({}, {}) is still live", e.kid, e.v);
                    }
                }
            }
            self.slots[si].model.e.clear();
            let m = self.map(si);
            if m.len() != 0 || m.allocation_size() != size0 || self.ctx.last_alloc_calls_sim() != 0 {
                vio!(self, class, "after an undriven par_drain was dropped the map has len() {} and allocation {} (was {size0})", m.len(), m.allocation_size());
            }
        } else {
            let m = self.slots[si].map.as_ref().unwrap();
            let out = self.ctx.call(op, || {
                let it = m.par_iter();
                let c = it.clone();
                let a: Vec<ME> = it.map(|(k, v)| me(k, v)).collect();
                let b: Vec<ME> = c.map(|(k, v)| me(k, v)).collect();
                let ks = m.par_keys();
                let kc = ks.clone();
                let vs = m.par_values();
                let vc = vs.clone();
                let d: Vec<(u32, u32)> = kc.map(|k| (k.id(), k.serial())).collect();
                let e: Vec<(u32, u32)> = vc.map(|v| (v.val(), v.serial())).collect();
                drop((ks, vs));
                (a, b, d, e)
            });
            finish_schedule(&mut self.ctx);
            match out {
                Out::Ok((a, b, d, e)) => {
                    let keys_vals_ok = sorted(d) == sorted(full.iter().map(|x| (x.kid, x.ks)).collect::<Vec<_>>()) && sorted(e) == sorted(full.iter().map(|x| (x.v, x.vs)).collect::<Vec<_>>());
                    if sorted(a) != full || sorted(b) != full || !keys_vals_ok {
                        vio!(self, class, "a cloned parallel iterator did not deliver exactly the map's {} entries", full.len());
                    }
                }
                _ => vio!(self, class, "a cloned parallel iterator panicked"),
            }
        }
        Ok(())
    }

    pub(crate) fn op_par(&mut self, si: usize, ti: usize, op: &Op) -> VResult {
        if op.a >= 1000 {
            return self.op_par_extra(si, op);
        }
        let which = op.a.rem_euclid(16);
        let k_stop = op.b.max(0) as usize;
        let model = self.slots[si].model.clone();
        let n = model.e.len();
        let full: Vec<ME> = model.sorted();
        let size0 = self.map(si).allocation_size();
        install(op);
        let me = |k: &K, v: &V| ME { kid: k.id(), ks: k.serial(), v: v.val(), vs: v.serial() };
        let class = format!("par/{which}");
        match which {
            0..=3 | 11 => {
                let m = self.slots[si].map.as_ref().unwrap();
                let sink: Mutex<Vec<ME>> = Mutex::new(Vec::new());
                let target = model.e.get(k_stop % n.max(1)).map(|e| e.kid);
                let out = self.ctx.call(op, || match which {
                    0 => {
                        m.par_iter().for_each(|(k, v)| sink.lock().unwrap().push(me(k, v)));
                        None
                    }
                    1 => {
                        let v: Vec<ME> = m.par_iter().map(|(k, v)| me(k, v)).collect();
                        *sink.lock().unwrap() = v;
                        None
                    }
                    2 => {
                        let v: Vec<ME> = m.par_keys().map(|k| ME { kid: k.id(), ks: k.serial(), v: 0, vs: 0 }).collect();
                        *sink.lock().unwrap() = v;
                        None
                    }
                    3 => {
                        let v: Vec<ME> = m.par_values().map(|v| ME { kid: 0, ks: 0, v: v.val(), vs: v.serial() }).collect();
                        *sink.lock().unwrap() = v;
                        None
                    }
                    _ => Some((m.par_iter().find_any(|(k, _)| Some(k.id()) == target).map(|(k, v)| me(k, v)), m.par_iter().any(|(k, _)| Some(k.id()) == target), m.par_iter().all(|(k, _)| Some(k.id()) != target))),
                });
                finish_schedule(&mut self.ctx);
                let got = sorted(sink.into_inner().unwrap());
                let found = match out {
                    Out::Ok(f) => f,
                    _ => vio!(self, class, "a parallel read-only traversal panicked"),
                };
                if let Some((f, any, all)) = found {
                    let want = target.and_then(|t| model.get(t));
                    if f != want || any != want.is_some() || all != want.is_none() {
                        vio!(self, class, "find_any/any/all for key {:?} returned {:?}/{any}/{all}, the model has {:?}", target, f, want);
                    }
                } else {
                    let want: Vec<ME> = sorted(match which {
                        2 => full.iter().map(|e| ME { kid: e.kid, ks: e.ks, v: 0, vs: 0 }).collect(),
                        3 => full.iter().map(|e| ME { kid: 0, ks: 0, v: e.v, vs: e.vs }).collect(),
                        _ => full.clone(),
                    });
                    if got != want {
                        vio!(self, class, "parallel traversal {which} delivered {} items (duplicates: {}), the map holds {}", got.len(), has_dup(&got), want.len());
                    }
                }
            }
            4..=6 => {
                // mutable traversals: every element toggled exactly once
                let m = self.slots[si].map.as_mut().unwrap();
                let cnt = AtomicUsize::new(0);
                let out = self.ctx.call(op, || match which {
                    4 => m.par_iter_mut().for_each(|(_, v)| {
                        cnt.fetch_add(1, Ordering::SeqCst);
                        v.set(v.val() ^ TOGGLE)
                    }),
                    5 => m.par_values_mut().for_each(|v| {
                        cnt.fetch_add(1, Ordering::SeqCst);
                        v.set(v.val() ^ TOGGLE)
                    }),
                    _ => (&mut *m).into_par_iter().for_each(|(_, v)| {
                        cnt.fetch_add(1, Ordering::SeqCst);
                        v.set(v.val() ^ TOGGLE)
                    }),
                });
                finish_schedule(&mut self.ctx);
                if !matches!(out, Out::Ok(())) {
                    vio!(self, class, "a parallel mutable traversal panicked");
                }
                if cnt.load(Ordering::SeqCst) != n {
                    vio!(self, class, "parallel mutable traversal visited {} elements, the map holds {n}", cnt.load(Ordering::SeqCst));
                }
                for e in self.slots[si].model.e.iter_mut() {
                    e.v ^= Self::TG;
                }
            }
            7..=10 | 12 => {
                // owning traversals: into_par_iter (7, 10) and par_drain (8, 9, 12)
                let owning = matches!(which, 7 | 10);
                let stop = matches!(which, 9 | 10);
                let panics = which == 12;
                let fresh: SMap<K, V> = HashMap::with_hasher_in(SimBuildHasher::new(self.slots[si].plan.clone()), SimAlloc);
                let mut taken = if owning { Some(self.slots[si].map.replace(fresh).unwrap()) } else { None };
                let mref = if owning { None } else { self.slots[si].map.as_mut() };
                let counter = AtomicUsize::new(0);
                let kk = 1 + k_stop % (n + 1);
                let out = self.ctx.call(op, || -> Vec<(K, V)> {
                    if let Some(m) = taken.take() {
                        if stop {
                            m.into_par_iter().take_any(kk).collect()
                        } else {
                            m.into_par_iter().collect()
                        }
                    } else {
                        let m = mref.unwrap();
                        if stop {
                            m.par_drain().take_any(kk).collect()
                        } else if panics {
                            m.par_drain()
                                .map(|kv| {
                                    panic_at(&counter, kk);
                                    kv
                                })
                                .collect()
                        } else {
                            m.par_drain().collect()
                        }
                    }
                });
                let st = finish_schedule(&mut self.ctx);
                let delivered: Vec<(K, V)> = match out {
                    Out::Ok(v) => v,
                    Out::Fault(Class::Consume) if panics => Vec::new(),
                    _ => vio!(self, class, "an owning parallel traversal panicked unexpectedly"),
                };
                let got: Vec<ME> = delivered.iter().map(|(k, v)| me(k, v)).collect();
                let intact = delivered.iter().all(|(k, v)| k.intact() && v.intact());
                drop(delivered);
                self.ctx.drain_callback_violations()?;
                if !intact {
                    vio!(self, "ledger/invalid-ref", "an owning parallel traversal delivered an element that is not live");
                }
                let gs = sorted(got.clone());
                if has_dup(&gs) || gs.iter().any(|g| !full.contains(g)) {
                    vio!(self, class, "owning parallel traversal {which} delivered an element twice or one that was not stored ({} items of {n})", gs.len());
                }
                if !stop && !panics && gs != full {
                    vio!(self, class, "owning parallel traversal {which} delivered {} of {n} elements", gs.len());
                }
                if stop && gs.len() != kk.min(n) {
                    vio!(self, class, "take_any({kk}) over {n} elements delivered {}", gs.len());
                }
                // everything not delivered was dropped exactly once; delivered items were dropped by us
                {
                    let s = sim();
                    for e in &full {
                        if (K::HAS_SERIAL && s.serial_state[e.ks as usize] == 1) || (V::HAS_SERIAL && s.serial_state[e.vs as usize] == 1) {
                            drop(s);
                            vio!(self, "ledger/leak", "after owning parallel traversal {which} (splits {}, leaves {}) entry ({}, {}) is still live: undelivered elements must be dropped exactly once", st.splits, st.leaves, e.kid, e.v);
                        }
                    }
                }
                self.slots[si].model.e.clear();
                if !owning {
                    let m = self.map(si);
                    if m.len() != 0 {
                        vio!(self, class, "after par_drain the map has len() {}", m.len());
                    }
                    if m.allocation_size() != size0 || self.ctx.last_alloc_calls_sim() != 0 {
                        vio!(self, class, "par_drain changed the allocation: {} -> {} bytes", size0, m.allocation_size());
                    }
                }
            }
            13 => {
                // par_extend = sequential extend, also for sources with repeated keys (last value wins):
                // even decisions use another map's into_par_iter (through the owned bridge), odd ones a Vec
                // with duplicates (rayon's indexed bridge on the pinned pool splits it into chunks)
                let mut pairs: Vec<(u32, u32)> = self.slots[ti].model.e.iter().map(|e| (e.kid, Self::nv(e.v ^ 1))).chain(std::iter::once((op.b as u32 % K::UNIVERSE, Self::nv(7)))).collect();
                let from_vec = op.b % 2 == 1;
                if from_vec {
                    let dups: Vec<(u32, u32)> = pairs.iter().enumerate().map(|(i, p)| (p.0, Self::nv(p.1 ^ (0x100 + i as u32)))).collect();
                    pairs.extend(dups);
                    for (i, d) in op.v.iter().enumerate() {
                        if pairs.len() > 1 {
                            let j = (*d as usize) % pairs.len();
                            let k = i % pairs.len();
                            pairs.swap(j, k);
                        }
                    }
                }
                let mut expect_src: Vec<(u32, u32)> = Vec::new();
                for &(k, v) in &pairs {
                    match expect_src.iter_mut().find(|w| w.0 == k) {
                        Some(w) => w.1 = v,
                        None => expect_src.push((k, v)),
                    }
                }
                let tplan = self.slots[ti].plan.clone();
                let room = {
                    let m = self.map(si);
                    m.capacity() - m.len()
                };
                let n_src = pairs.len();
                let m = self.slots[si].map.as_mut().unwrap();
                let out = if from_vec && op.b % 4 == 3 && MapWorld::<K, V>::pod_map(m).is_some() {
                    // ParallelExtend<(&K, &V)> (Copy pairs only)
                    let pod: Vec<(crate::elem::PodKey, u32)> = pairs.iter().map(|&(k, v)| (crate::elem::PodKey(k), v)).collect();
                    let pm = MapWorld::<K, V>::pod_map(m).unwrap();
                    self.ctx.call(op, || pm.par_extend(pod.par_iter().map(|(k, v)| (k, v))))
                } else if from_vec {
                    let items: Vec<(K, V)> = pairs.iter().map(|&(k, v)| (K::make(k), V::make(v))).collect();
                    self.ctx.call(op, || m.par_extend(items.into_par_iter()))
                } else {
                    let mut tmp: SMap<K, V> = HashMap::with_hasher_in(SimBuildHasher::new(tplan), SimAlloc);
                    for &(k, v) in &pairs {
                        tmp.insert(K::make(k), V::make(v));
                    }
                    self.ctx.call(op, || m.par_extend(tmp.into_par_iter()))
                };
                finish_schedule(&mut self.ctx);
                if !matches!(out, Out::Ok(())) {
                    vio!(self, class, "par_extend panicked");
                }
                // like extend: a source that fits into the spare room is taken in without asking the allocator
                if n_src <= room && self.ctx.last_alloc_calls > 0 && si != ti {
                    vio!(self, "cap/alloc-with-room", "par_extend of {n_src} pairs into a map with capacity()-len()={room} called the allocator");
                }
                let mut want: Vec<(u32, u32)> = self.slots[si].model.e.iter().map(|e| (e.kid, e.v)).collect();
                for (k, v) in expect_src {
                    match want.iter_mut().find(|w| w.0 == k) {
                        Some(w) => w.1 = v,
                        None => want.push((k, v)),
                    }
                }
                let act = self.actual(si);
                let got = sorted(act.iter().map(|x| (x.0.kid, x.0.v)).collect::<Vec<_>>());
                if got != sorted(want) {
                    vio!(self, class, "par_extend result differs from a sequential extend of the same source ({} entries, source from a Vec with repeated keys: {from_vec})", got.len());
                }
                self.slots[si].model.e = act.into_iter().map(|x| x.0).collect();
            }
            14 => {
                // from_par_iter (global allocator only) = from_iter
                let m = self.slots[si].map.as_ref().unwrap();
                let out = self.ctx.call(op, || {
                    let c: HashMap<K, V, SimBuildHasher> = m.par_iter().map(|(k, v)| (k.clone(), v.clone())).collect();
                    let v: Vec<(u32, u32)> = c.iter().map(|(k, v)| (k.id(), v.val())).collect();
                    drop(c);
                    v
                });
                finish_schedule(&mut self.ctx);
                let got = match out {
                    Out::Ok(v) => sorted(v),
                    _ => vio!(self, class, "from_par_iter panicked"),
                };
                let want = sorted(model.e.iter().map(|e| (e.kid, e.v)).collect::<Vec<_>>());
                if got != want {
                    vio!(self, class, "from_par_iter built {} entries, the source holds {}", got.len(), want.len());
                }
            }
            _ => {
                // (also of a map with itself: with a value that is not equal to itself both must say false)
                let a = self.slots[si].map.as_ref().unwrap();
                let b = self.slots[ti].map.as_ref().unwrap();
                let out = self.ctx.call(op, || (a.par_eq(b), b.par_eq(a), a == b));
                finish_schedule(&mut self.ctx);
                let (x, y, z) = match out {
                    Out::Ok(r) => r,
                    _ => vio!(self, class, "par_eq panicked"),
                };
                if x != z || y != z {
                    vio!(self, class, "par_eq gives {x}/{y}, == gives {z}");
                }
            }
        }
        Ok(())
    }
}

impl crate::ctx::RunCtx {
    /// allocator calls of the last guarded call
    pub fn last_alloc_calls_sim(&self) -> u32 {
        self.last_alloc_calls + self.last_dealloc_calls
    }
}

// ------------------------------------------------------------------------------------------ sets
impl<K: KeyT> SetWorld<K> {
    fn op_par_extra(&mut self, si: usize, op: &Op) -> VResult {
        let which = (op.a - 1000).rem_euclid(2);
        let full: Vec<SE> = sorted(self.slots[si].model.clone());
        let size0 = self.set(si).allocation_size();
        let class = format!("par/setextra{which}");
        install(op);
        if which == 0 {
            let s = self.slots[si].set.as_mut().unwrap();
            let out = self.ctx.call(op, || drop(s.par_drain()));
            finish_schedule(&mut self.ctx);
            if !matches!(out, Out::Ok(())) {
                vio!(self, class, "dropping an undriven par_drain panicked");
            }
            self.ctx.drain_callback_violations()?;
            if K::HAS_SERIAL {
                let s = sim();
                for e in &full {
                    if s.serial_state[e.1 as usize] == 1 {
                        drop(s);
                        vio!(self, "ledger/leak", "after an undriven par_drain was dropped element {} is still live", e.0);
                    }
                }
            }
            self.slots[si].model.clear();
            let st = self.set(si);
            if st.len() != 0 || st.allocation_size() != size0 || self.ctx.last_alloc_calls_sim() != 0 {
                vio!(self, class, "after an undriven par_drain was dropped the set has len() {} and allocation {} (was {size0})", st.len(), st.allocation_size());
            }
        } else {
            let s = self.slots[si].set.as_ref().unwrap();
            let out = self.ctx.call(op, || {
                // (the set's ParIter is not Clone: two independent traversals)
                let it = s.par_iter();
                let c = s.par_iter();
                let a: Vec<SE> = it.map(|k| (k.id(), k.serial())).collect();
                let b: Vec<SE> = c.map(|k| (k.id(), k.serial())).collect();
                (a, b)
            });
            finish_schedule(&mut self.ctx);
            match out {
                Out::Ok((a, b)) if sorted(a.clone()) == full && sorted(b.clone()) == full => {}
                Out::Ok((a, b)) => vio!(self, class, "a cloned parallel iterator delivered {} / {} elements, the set holds {}", a.len(), b.len(), full.len()),
                _ => vio!(self, class, "a cloned parallel iterator panicked"),
            }
        }
        Ok(())
    }

    pub(crate) fn op_par(&mut self, si: usize, ti: usize, op: &Op) -> VResult {
        if op.a >= 1000 {
            return self.op_par_extra(si, op);
        }
        let which = op.a.rem_euclid(16);
        let k_stop = op.b.max(0) as usize;
        let model: Vec<SE> = self.slots[si].model.clone();
        let n = model.len();
        let full = sorted(model.clone());
        let class = format!("par/set{which}");
        install(op);
        let ids = |m: &[SE]| -> BTreeSet<u32> { m.iter().map(|e| e.0).collect() };
        match which {
            0 | 1 => {
                let s = self.slots[si].set.as_ref().unwrap();
                let out = self.ctx.call(op, || -> Vec<SE> {
                    if which == 0 {
                        s.par_iter().map(|k| (k.id(), k.serial())).collect()
                    } else {
                        s.into_par_iter().map(|k| (k.id(), k.serial())).collect()
                    }
                });
                finish_schedule(&mut self.ctx);
                match out {
                    Out::Ok(v) if sorted(v.clone()) == full => {}
                    Out::Ok(v) => vio!(self, class, "parallel set traversal delivered {} items (duplicates: {}), the set holds {n}", v.len(), has_dup(&v)),
                    _ => vio!(self, class, "parallel set traversal panicked"),
                }
            }
            2..=4 => {
                // 2 into_par_iter, 3 par_drain, 4 par_drain + take_any
                let owning = which == 2;
                let stop = which == 4;
                let size0 = self.slots[si].set.as_ref().unwrap().allocation_size();
                let fresh: SSet<K> = HashSet::with_hasher_in(SimBuildHasher::new(self.slots[si].plan.clone()), SimAlloc);
                let mut taken = if owning { Some(self.slots[si].set.replace(fresh).unwrap()) } else { None };
                let sref = if owning { None } else { self.slots[si].set.as_mut() };
                let kk = 1 + k_stop % (n + 1);
                let out = self.ctx.call(op, || -> Vec<K> {
                    if let Some(s) = taken.take() {
                        s.into_par_iter().collect()
                    } else if stop {
                        sref.unwrap().par_drain().take_any(kk).collect()
                    } else {
                        sref.unwrap().par_drain().collect()
                    }
                });
                finish_schedule(&mut self.ctx);
                let delivered = match out {
                    Out::Ok(v) => v,
                    _ => vio!(self, class, "an owning parallel set traversal panicked"),
                };
                let got: Vec<SE> = sorted(delivered.iter().map(|k| (k.id(), k.serial())).collect());
                drop(delivered);
                self.ctx.drain_callback_violations()?;
                if has_dup(&got) || got.iter().any(|g| !full.contains(g)) || (!stop && got != full) || (stop && got.len() != kk.min(n)) {
                    vio!(self, class, "owning parallel set traversal {which} delivered {} of {n} elements (duplicates: {})", got.len(), has_dup(&got));
                }
                if K::HAS_SERIAL {
                    let s = sim();
                    for e in &full {
                        if s.serial_state[e.1 as usize] == 1 {
                            drop(s);
                            vio!(self, "ledger/leak", "after owning parallel set traversal {which} element {:?} is still live", e);
                        }
                    }
                }
                self.slots[si].model.clear();
                if !owning {
                    let st = self.slots[si].set.as_ref().unwrap();
                    if st.len() != 0 || st.allocation_size() != size0 {
                        vio!(self, class, "after par_drain the set has len() {} and allocation {} (was {size0})", st.len(), st.allocation_size());
                    }
                }
            }
            5..=8 => {
                // (both operands may be the same set)
                let a = self.slots[si].set.as_ref().unwrap();
                let b = self.slots[ti].set.as_ref().unwrap();
                let out = self.ctx.call(op, || -> (Vec<u32>, Vec<u32>) {
                    match which {
                        5 => (a.par_union(b).map(|k| k.id()).collect(), a.union(b).map(|k| k.id()).collect()),
                        6 => (a.par_intersection(b).map(|k| k.id()).collect(), a.intersection(b).map(|k| k.id()).collect()),
                        7 => (a.par_difference(b).map(|k| k.id()).collect(), a.difference(b).map(|k| k.id()).collect()),
                        _ => (a.par_symmetric_difference(b).map(|k| k.id()).collect(), a.symmetric_difference(b).map(|k| k.id()).collect()),
                    }
                });
                finish_schedule(&mut self.ctx);
                let (p, s) = match out {
                    Out::Ok(r) => r,
                    _ => vio!(self, class, "a parallel set operation panicked"),
                };
                let (ma, mb) = (ids(&self.slots[si].model), ids(&self.slots[ti].model));
                let want: BTreeSet<u32> = match which {
                    5 => ma.union(&mb).copied().collect(),
                    6 => ma.intersection(&mb).copied().collect(),
                    7 => ma.difference(&mb).copied().collect(),
                    _ => ma.symmetric_difference(&mb).copied().collect(),
                };
                let ps: BTreeSet<u32> = p.iter().copied().collect();
                if ps.len() != p.len() || ps != want || sorted(p.clone()) != sorted(s) {
                    vio!(self, class, "parallel set operation {which} delivered {} elements ({} distinct), sequential and mathematical result have {}", p.len(), ps.len(), want.len());
                }
            }
            9..=12 => {
                // (both operands may be the same set)
                let a = self.slots[si].set.as_ref().unwrap();
                let b = self.slots[ti].set.as_ref().unwrap();
                let out = self.ctx.call(op, || match which {
                    9 => (a.par_is_disjoint(b), a.is_disjoint(b)),
                    10 => (a.par_is_subset(b), a.is_subset(b)),
                    11 => (a.par_is_superset(b), a.is_superset(b)),
                    _ => (a.par_eq(b), a == b),
                });
                finish_schedule(&mut self.ctx);
                let (p, s) = match out {
                    Out::Ok(r) => r,
                    _ => vio!(self, class, "a parallel set predicate panicked"),
                };
                let (ma, mb) = (ids(&self.slots[si].model), ids(&self.slots[ti].model));
                let want = match which {
                    9 => ma.is_disjoint(&mb),
                    10 => ma.is_subset(&mb),
                    11 => ma.is_superset(&mb),
                    _ => ma == mb,
                };
                if p != want || s != want {
                    vio!(self, class, "parallel set predicate {which} returned {p}, sequential {s}, mathematically {want}");
                }
            }
            _ => {
                // from_par_iter / par_extend exist for the global allocator only: build there and compare
                let s = self.slots[si].set.as_ref().unwrap();
                let extra: Vec<u32> = self.slots[ti].model.iter().map(|e| e.0).collect();
                let out = self.ctx.call(op, || {
                    let mut c: HashSet<K, SimBuildHasher> = s.par_iter().cloned().collect();
                    let tmp: HashSet<K, SimBuildHasher> = extra.iter().map(|&i| K::make(i)).collect();
                    c.par_extend(tmp.into_par_iter());
                    let v: Vec<u32> = c.iter().map(|k| k.id()).collect();
                    drop(c);
                    v
                });
                finish_schedule(&mut self.ctx);
                let got: BTreeSet<u32> = match out {
                    Out::Ok(v) => {
                        if has_dup(&v) {
                            vio!(self, class, "from_par_iter/par_extend produced a duplicate");
                        }
                        v.into_iter().collect()
                    }
                    _ => vio!(self, class, "from_par_iter/par_extend panicked"),
                };
                let want: BTreeSet<u32> = ids(&self.slots[si].model).union(&ids(&self.slots[ti].model)).copied().collect();
                if got != want {
                    vio!(self, class, "from_par_iter + par_extend built {} elements, expected {}", got.len(), want.len());
                }
            }
        }
        Ok(())
    }
}

// ------------------------------------------------------------------------------------------ tables
impl<E: ElemT> TableWorld<E> {
    fn op_par_extra(&mut self, si: usize, op: &Op) -> VResult {
        let which = (op.a - 1000).rem_euclid(2);
        let full: Vec<TE> = sorted(self.slots[si].model.clone());
        let size0 = self.tab(si).allocation_size();
        let class = format!("par/tableextra{which}");
        let te = |e: &E| TE { id: e.id(), serial: e.serial(), hash: e.hash(), payload: e.payload() };
        install(op);
        if which == 0 {
            let t = self.slots[si].t.as_mut().unwrap();
            let out = self.ctx.call(op, || drop(t.par_drain()));
            finish_schedule(&mut self.ctx);
            if !matches!(out, Out::Ok(())) {
                vio!(self, class, "dropping an undriven par_drain panicked");
            }
            self.ctx.drain_callback_violations()?;
            if E::HAS_SERIAL {
                let s = sim();
                for e in &full {
                    if s.serial_state[e.serial as usize] == 1 {
                        drop(s);
                        vio!(self, "ledger/leak", "after an undriven par_drain was dropped element {} is still live", e.id);
                    }
                }
            }
            self.slots[si].model.clear();
            let t = self.tab(si);
            if t.len() != 0 || t.allocation_size() != size0 || self.ctx.last_alloc_calls_sim() != 0 {
                vio!(self, class, "after an undriven par_drain was dropped the table has len() {} and allocation {} (was {size0})", t.len(), t.allocation_size());
            }
        } else {
            let t = self.slots[si].t.as_ref().unwrap();
            let out = self.ctx.call(op, || {
                let it = t.par_iter();
                let c = it.clone();
                let a: Vec<TE> = it.map(|e| te(e)).collect();
                let b: Vec<TE> = c.map(|e| te(e)).collect();
                (a, b)
            });
            finish_schedule(&mut self.ctx);
            match out {
                Out::Ok((a, b)) if sorted(a.clone()) == full && sorted(b.clone()) == full => {}
                Out::Ok((a, b)) => vio!(self, class, "a cloned parallel iterator delivered {} / {} elements, the table holds {}", a.len(), b.len(), full.len()),
                _ => vio!(self, class, "a cloned parallel iterator panicked"),
            }
        }
        Ok(())
    }

    pub(crate) fn op_par(&mut self, si: usize, op: &Op) -> VResult {
        if op.a >= 1000 {
            return self.op_par_extra(si, op);
        }
        let which = op.a.rem_euclid(6);
        let k_stop = op.b.max(0) as usize;
        let full: Vec<TE> = sorted(self.slots[si].model.clone());
        let n = full.len();
        let class = format!("par/table{which}");
        let tg = if E::IS_ZST { 0 } else { TTOGGLE };
        let te = |e: &E| TE { id: e.id(), serial: e.serial(), hash: e.hash(), payload: e.payload() };
        install(op);
        match which {
            0 | 1 => {
                let t = self.slots[si].t.as_ref().unwrap();
                let out = self.ctx.call(op, || -> Vec<TE> {
                    if which == 0 {
                        t.par_iter().map(|e| te(e)).collect()
                    } else {
                        t.into_par_iter().map(|e| te(e)).collect()
                    }
                });
                finish_schedule(&mut self.ctx);
                match out {
                    Out::Ok(v) if sorted(v.clone()) == full => {}
                    Out::Ok(v) => vio!(self, class, "parallel table traversal delivered {} items, the table holds {n}", v.len()),
                    _ => vio!(self, class, "parallel table traversal panicked"),
                }
            }
            2 => {
                let t = self.slots[si].t.as_mut().unwrap();
                let cnt = AtomicUsize::new(0);
                let out = self.ctx.call(op, || {
                    t.par_iter_mut().for_each(|e| {
                        cnt.fetch_add(1, Ordering::SeqCst);
                        e.set_payload(e.payload() ^ TTOGGLE)
                    })
                });
                finish_schedule(&mut self.ctx);
                if !matches!(out, Out::Ok(())) || cnt.load(Ordering::SeqCst) != n {
                    vio!(self, class, "par_iter_mut visited {} of {n} elements (or panicked)", cnt.load(Ordering::SeqCst));
                }
                for e in self.slots[si].model.iter_mut() {
                    e.payload ^= tg;
                }
            }
            _ => {
                // 3 into_par_iter, 4 par_drain, 5 par_drain + take_any
                let owning = which == 3;
                let stop = which == 5;
                let size0 = self.slots[si].t.as_ref().unwrap().allocation_size();
                let mut taken = if owning { Some(self.slots[si].t.replace(hashbrown::HashTable::new_in(SimAlloc)).unwrap()) } else { None };
                let tref = if owning { None } else { self.slots[si].t.as_mut() };
                let kk = 1 + k_stop % (n + 1);
                let out = self.ctx.call(op, || -> Vec<E> {
                    if let Some(t) = taken.take() {
                        t.into_par_iter().collect()
                    } else if stop {
                        tref.unwrap().par_drain().take_any(kk).collect()
                    } else {
                        tref.unwrap().par_drain().collect()
                    }
                });
                finish_schedule(&mut self.ctx);
                let delivered = match out {
                    Out::Ok(v) => v,
                    _ => vio!(self, class, "an owning parallel table traversal panicked"),
                };
                let got: Vec<TE> = sorted(delivered.iter().map(|e| te(e)).collect());
                drop(delivered);
                self.ctx.drain_callback_violations()?;
                let sub = crate::iterdrv::is_sub_multiset(&got.iter().map(|e| (e.id, e.serial, e.payload, e.hash as u32)).collect::<Vec<_>>(), &full.iter().map(|e| (e.id, e.serial, e.payload, e.hash as u32)).collect::<Vec<_>>());
                if !sub || (!stop && got != full) || (stop && got.len() != kk.min(n)) {
                    vio!(self, class, "owning parallel table traversal {which} delivered {} of {n} elements", got.len());
                }
                if E::HAS_SERIAL {
                    let s = sim();
                    for e in &full {
                        if s.serial_state[e.serial as usize] == 1 {
                            drop(s);
                            vio!(self, "ledger/leak", "after owning parallel table traversal {which} element {:?} is still live", e);
                        }
                    }
                }
                self.slots[si].model.clear();
                if !owning {
                    let t = self.slots[si].t.as_ref().unwrap();
                    if t.len() != 0 || t.allocation_size() != size0 {
                        vio!(self, class, "after par_drain the table has len() {} and allocation {} (was {size0})", t.len(), t.allocation_size());
                    }
                }
            }
        }
        Ok(())
    }
}
