//! The only source of randomness in the simulator: a splitmix64-seeded xoshiro256**.
//! Never seeded from a clock, an address or the OS.

#[inline]
pub fn splitmix(x: u64) -> u64 {
    let mut z = x.wrapping_add(0x9E37_79B9_7F4A_7C15);
    z = (z ^ (z >> 30)).wrapping_mul(0xBF58_476D_1CE4_E5B9);
    z = (z ^ (z >> 27)).wrapping_mul(0x94D0_49BB_1331_11EB);
    z ^ (z >> 31)
}

/// Mixes a base seed, a property tag and a run index into one run seed.
pub fn mix3(a: u64, b: u64, c: u64) -> u64 {
    splitmix(splitmix(splitmix(a) ^ b.wrapping_mul(0xA24B_AED4_963E_E407)) ^ c.wrapping_mul(0x9FB2_1C65_1E98_DF25))
}

pub fn tag_of(s: &str) -> u64 {
    let mut h: u64 = 0xcbf2_9ce4_8422_2325;
    for b in s.bytes() {
        h ^= b as u64;
        h = h.wrapping_mul(0x100_0000_01b3);
    }
    h
}

#[derive(Clone, Debug)]
pub struct Rng {
    s: [u64; 4],
}

impl Rng {
    pub fn new(seed: u64) -> Rng {
        let mut x = seed;
        let mut s = [0u64; 4];
        for v in s.iter_mut() {
            x = x.wrapping_add(0x9E37_79B9_7F4A_7C15);
            *v = splitmix(x);
        }
        if s == [0; 4] {
            s[0] = 1;
        }
        Rng { s }
    }
    #[inline]
    pub fn next(&mut self) -> u64 {
        let r = self.s[1].wrapping_mul(5).rotate_left(7).wrapping_mul(9);
        let t = self.s[1] << 17;
        self.s[2] ^= self.s[0];
        self.s[3] ^= self.s[1];
        self.s[1] ^= self.s[2];
        self.s[0] ^= self.s[3];
        self.s[2] ^= t;
        self.s[3] = self.s[3].rotate_left(45);
        r
    }
    /// Uniform in 0..n (n > 0).
    #[inline]
    pub fn below(&mut self, n: u64) -> u64 {
        debug_assert!(n > 0);
        ((self.next() as u128 * n as u128) >> 64) as u64
    }
    #[inline]
    pub fn range(&mut self, lo: i64, hi_incl: i64) -> i64 {
        lo + self.below((hi_incl - lo + 1) as u64) as i64
    }
    #[inline]
    pub fn chance(&mut self, num: u64, den: u64) -> bool {
        self.below(den) < num
    }
    #[inline]
    pub fn pick<'a, T>(&mut self, xs: &'a [T]) -> &'a T {
        &xs[self.below(xs.len() as u64) as usize]
    }
    /// Picks an index according to integer weights (sum > 0).
    pub fn weighted(&mut self, w: &[u32]) -> usize {
        let total: u64 = w.iter().map(|&x| x as u64).sum();
        let mut r = self.below(total.max(1));
        for (i, &x) in w.iter().enumerate() {
            if r < x as u64 {
                return i;
            }
            r -= x as u64;
        }
        w.len() - 1
    }
    pub fn shuffle<T>(&mut self, xs: &mut [T]) {
        for i in (1..xs.len()).rev() {
            let j = self.below(i as u64 + 1) as usize;
            xs.swap(i, j);
        }
    }
}

/// Order-sensitive 64-bit digest used for determinism checks and run signatures.
#[derive(Clone, Copy, Debug)]
pub struct Digest(pub u64);

impl Digest {
    pub fn new() -> Digest {
        Digest(0x1234_5678_9abc_def1)
    }
    #[inline]
    pub fn add(&mut self, x: u64) {
        self.0 = splitmix(self.0 ^ x.wrapping_mul(0x2545_F491_4F6C_DD1D));
    }
    pub fn add_bytes(&mut self, b: &[u8]) {
        let mut h: u64 = 0xcbf2_9ce4_8422_2325;
        for &x in b {
            h ^= x as u64;
            h = h.wrapping_mul(0x100_0000_01b3);
        }
        self.add(h);
        self.add(b.len() as u64);
    }
    pub fn add_str(&mut self, s: &str) {
        self.add_bytes(s.as_bytes());
    }
}
