//! hbsim — deterministic simulation of rust-lang/hashbrown with fault injection.
//!
//! Sub-commands:
//!   worker --prop P --tier quick|thorough --seed-base S --from A --count N [--progress F] [--trace F] [--digests]
//!   replay FILE            re-executes a scenario file; prints VIOLATION-JSON or OK
//!   width                  prints the group width compiled in

mod alloc;
mod ctors;
mod ctx;
mod dump;
mod elem;
mod gen;
mod groupmon;
mod iterdrv;
mod mapw;
mod mapw_entry;
mod mapw_more;
mod par_world;
mod plan;
mod profiles;
mod rng;
mod runner;
mod serde_world;
mod serdeops;
mod scenario;
mod setw;
mod state;
mod tablew;
mod world;

use std::collections::BTreeMap;

fn arg<'a>(args: &'a [String], name: &str) -> Option<&'a str> {
    args.iter().position(|a| a == name).and_then(|i| args.get(i + 1)).map(|s| s.as_str())
}

fn main() {
    let args: Vec<String> = std::env::args().collect();
    state::install_panic_hook();
    match args.get(1).map(|s| s.as_str()) {
        Some("worker") => {
            let prop = arg(&args, "--prop").expect("--prop").to_string();
            let tier = arg(&args, "--tier").unwrap_or("quick").to_string();
            let seed_base: u64 = arg(&args, "--seed-base").and_then(|s| s.parse().ok()).unwrap_or(1);
            let from: u64 = arg(&args, "--from").and_then(|s| s.parse().ok()).unwrap_or(0);
            let count: u64 = arg(&args, "--count").and_then(|s| s.parse().ok()).unwrap_or(1);
            let opts = runner::WorkerOpts {
                prop,
                thorough: tier == "thorough",
                seed_base,
                from,
                count,
                progress: arg(&args, "--progress").map(|s| s.to_string()),
                trace: arg(&args, "--trace").map(|s| s.to_string()),
                digests: args.iter().any(|a| a == "--digests"),
                max_violations: arg(&args, "--max-violations").and_then(|s| s.parse().ok()).unwrap_or(3),
                budget_s: arg(&args, "--budget-s").and_then(|s| s.parse().ok()).unwrap_or(0.0),
                emit: arg(&args, "--emit").map(|s| s.to_string()),
                batch: arg(&args, "--batch").map(|s| s.to_string()),
                corpus: arg(&args, "--corpus").map(|s| s.to_string()),
            };
            let code = runner::worker(opts);
            std::process::exit(code);
        }
        Some("replay") => {
            let path = args.get(2).expect("replay FILE");
            let text = std::fs::read_to_string(path).expect("read scenario");
            let file: BTreeMap<String, serde_json::Value> = serde_json::from_str(&text).expect("parse scenario file");
            let sc: scenario::Scenario = serde_json::from_value(file.get("scenario").cloned().unwrap_or_else(|| serde_json::to_value(&file).unwrap())).expect("scenario");
            let mut res = runner::replay(&sc);
            // differential replay files carry the transcript recorded under the other back-end
            if let (None, Some(want)) = (&res.violation, file.get("expect_transcript").and_then(|v| v.as_str())) {
                let got = format!("{:016x}", res.transcript);
                if got != want {
                    res.violation = Some(scenario::Violation { class: "differential/transcript".into(), op_index: sc.ops.len().saturating_sub(1), op_kind: "Finish".into(), detail: format!("transcript {got} under group width {} differs from {want} recorded by the other back-end", hashbrown::verif::verif_group_width()) });
                }
            }
            match res.violation {
                Some(v) => {
                    println!("VIOLATION-JSON {}", serde_json::to_string(&v).unwrap());
                    println!("owned={}", profiles::owns(&sc.property, &v));
                    std::process::exit(1);
                }
                None => {
                    println!("OK digest={:016x}", res.digest);
                    std::process::exit(0);
                }
            }
        }
        Some("width") => {
            println!("{}", hashbrown::verif::verif_group_width());
        }
        _ => {
            eprintln!("usage: hbsim worker|replay|width ...");
            std::process::exit(2);
        }
    }
}
