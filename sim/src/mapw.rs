//! HashMap world: interprets scenario operations on three `HashMap` slots against an
//! association-list reference model, with structural, ledger and allocator oracles after every step.

use crate::alloc::SimAlloc;
use crate::ctx::{Out, RunCtx, VResult};
use crate::dump::{self, Shape};
use crate::elem::{KeyT, ValT};
use crate::plan::{Plan, SimBuildHasher};
use crate::scenario::{Config, Op, Violation, Kd};
use crate::state::{sim, tick, Class, Probe};
use crate::world::{SlotView, World, WorldView};
use hashbrown::hash_map::{Entry, OccupiedEntry, VacantEntry};
use hashbrown::HashMap;
use std::collections::BTreeMap;

pub type SMap<K, V> = HashMap<K, V, SimBuildHasher, SimAlloc>;

#[derive(Clone, Copy, Debug, PartialEq, Eq, PartialOrd, Ord)]
pub struct ME {
    pub kid: u32,
    pub ks: u32,
    pub v: u32,
    pub vs: u32,
}

#[derive(Clone, Debug, Default, PartialEq, Eq)]
pub struct MapModel {
    pub e: Vec<ME>,
}
impl MapModel {
    pub fn pos(&self, kid: u32) -> Option<usize> {
        self.e.iter().position(|x| x.kid == kid)
    }
    pub fn get(&self, kid: u32) -> Option<ME> {
        self.pos(kid).map(|i| self.e[i])
    }
    pub fn remove(&mut self, kid: u32) -> Option<ME> {
        self.pos(kid).map(|i| self.e.swap_remove(i))
    }
    pub fn sorted(&self) -> Vec<ME> {
        let mut v = self.e.clone();
        v.sort();
        v
    }
    pub fn ids(&self) -> Vec<u32> {
        self.e.iter().map(|x| x.kid).collect()
    }
}

pub struct MapSlot<K: KeyT, V: ValT> {
    pub map: Option<SMap<K, V>>,
    pub model: MapModel,
    pub plan: Plan,
}

/// What an operation under a fault was allowed to do, for the post-unwind oracle.
#[derive(Clone, Debug, Default)]
pub struct FaultCtx {
    pub before: MapModel,
    /// (key id, value) pairs that the operation's arguments may have introduced
    pub allowed: Vec<(u32, u32)>,
    /// the operation hands `&mut V` to user code that may have changed values by xor TOGGLE
    pub toggles: bool,
    /// serials of argument objects moved into the call (must be stored or dropped afterwards)
    pub arg_serials: Vec<u32>,
    /// the slot's previous contents are replaced wholesale (clone_from, from_iter): survivors may be fresh clones
    pub fresh_ok: bool,
    /// number of live blocks before the call
    pub blocks_before: usize,
    /// the operation inserts several elements one by one (extend, from_iter): a panic in a later
    /// element's growth step legitimately leaves the earlier elements in place
    pub multi: bool,
}

pub const TOGGLE: u32 = 0x4000_0000;

/// Observation log entry of an entry-API chain (real vs model).
#[derive(Clone, Debug, PartialEq, Eq)]
pub enum Ev {
    Occ(bool),
    Key(u32, u32),
    Val(u32, u32),
    Removed(u32, u32, u32, u32),
    Old(u32, u32),
    RetKey(u32, u32),
    Nothing,
}

pub struct MapWorld<K: KeyT, V: ValT> {
    pub slots: Vec<MapSlot<K, V>>,
    pub ctx: RunCtx,
    /// C13: peak live size per slot and the allocation a fresh with_capacity(peak) needs
    pub peak: Vec<(usize, usize)>,
}

macro_rules! vio {
    ($self:ident, $class:expr, $($arg:tt)*) => {
        return Err($self.ctx.violation(&$class, format!($($arg)*)))
    };
}

fn new_map<K: KeyT, V: ValT>(plan: &Plan, si: usize) -> SMap<K, V> {
    HashMap::with_hasher_in(SimBuildHasher::new(plan.clone()), SimAlloc::of_slot(si))
}

impl<K: KeyT, V: ValT> MapWorld<K, V> {
    /// value toggle mask and value normalisation: zero-sized values cannot store a payload
    pub(crate) const TG: u32 = if V::STORES { TOGGLE } else { 0 };
    pub(crate) fn nv(x: u32) -> u32 {
        if V::STORES {
            x
        } else {
            0
        }
    }
    pub fn new(cfg: Config) -> Self {
        let slots: Vec<MapSlot<K, V>> = cfg
            .plans
            .iter()
            .enumerate()
            .map(|(i, p)| MapSlot { map: Some(new_map::<K, V>(p, i)), model: MapModel::default(), plan: p.clone() })
            .collect();
        let n = slots.len();
        MapWorld { slots, ctx: RunCtx::new(cfg), peak: vec![(0, 0); n] }
    }

    pub(crate) fn map(&self, si: usize) -> &SMap<K, V> {
        self.slots[si].map.as_ref().unwrap()
    }

    pub fn shape(&self, si: usize) -> Shape {
        dump::shape(&hashbrown::verif::dump_map(self.map(si)))
    }

    pub(crate) fn live_blocks(&self) -> usize {
        sim().blocks.len()
    }

    pub(crate) fn fctx(&self, si: usize, op: &Op) -> FaultCtx {
        // The "before" snapshot is only needed when something can unwind.
        if op.f.is_some() || self.ctx.cfg.callback_cap != 0 {
            FaultCtx { before: self.slots[si].model.clone(), blocks_before: self.live_blocks(), ..Default::default() }
        } else {
            FaultCtx::default()
        }
    }

    /// Turns a non-Ok outcome into either a violation or (for an injected fault) the post-unwind
    /// oracle followed by model re-synchronisation. Returns Some(r) when the call returned.
    pub(crate) fn settle<R>(&mut self, out: Out<R>, si: usize, fc: FaultCtx) -> VResult<Option<R>> {
        match out {
            Out::Ok(r) => Ok(Some(r)),
            Out::Fault(c) => {
                self.after_fault(si, fc, c)?;
                Ok(None)
            }
            Out::Ceiling(n) => {
                self.ctx.drain_callback_violations()?;
                vio!(self, "alloc/over-reservation", "request of {n} bytes")
            }
            Out::Diverge(n) => vio!(self, format!("diverge/{}", self.ctx.op_kind), "more than {n} callbacks in one operation"),
            Out::Panic(msg) => {
                self.ctx.drain_callback_violations()?;
                if msg.contains("Went past end of probe sequence") {
                    // the debug assertion that stands in for a probe loop that would never end
                    vio!(self, format!("hang/probe-{}", self.ctx.op_kind), "a probe sequence visited every group without finding an EMPTY byte (non-termination in a release build): {msg}")
                }
                vio!(self, format!("panic/{}", self.ctx.op_kind), "unexpected panic: {msg}")
            }
        }
    }

    /// Reads the actual contents through the hook (no user callbacks involved).
    pub(crate) fn actual(&self, si: usize) -> Vec<(ME, bool)> {
        hashbrown::verif::full_buckets_map(self.map(si))
            .into_iter()
            .map(|(_, (k, v))| (ME { kid: k.id(), ks: k.serial(), v: v.val(), vs: v.serial() }, k.intact() && v.intact()))
            .collect()
    }

    // ------------------------------------------------------------------ post-unwind oracle (C04)
    pub(crate) fn after_fault(&mut self, si: usize, fc: FaultCtx, class: Class) -> VResult {
        self.ctx.drain_callback_violations()?;
        let d = hashbrown::verif::dump_map(self.map(si));
        if let Some((c, det)) = dump::check(&d).into_iter().next() {
            vio!(self, c, "after a {} panic: {det}", class.name());
        }
        let grew = self.ctx.last_alloc_calls > 0;
        {
            let mut s = sim();
            match class {
                Class::Hash if grew => s.probe(Probe::PanicInResize),
                Class::Hash if fc.before.e.len() > 0 && self.ctx.last_counts[Class::Hash as usize] > 1 => s.probe(Probe::PanicInRehashInPlace),
                Class::Hash => s.probe(Probe::PanicInHashLookup),
                Class::Eq => s.probe(Probe::PanicInEq),
                Class::Clone => s.probe(Probe::PanicInClone),
                Class::Drop => s.probe(Probe::PanicInDrop),
                Class::Pred => s.probe(Probe::PanicInPred),
                Class::Iter => s.probe(Probe::PanicInIntoIterSrc),
                _ => {}
            }
        }
        let act = self.actual(si);
        for (e, ok) in &act {
            if !ok {
                vio!(self, "postpanic/dead-element", "after a {} panic the table holds key {} (serial {}) / value serial {} which is not a live element", class.name(), e.kid, e.ks, e.vs);
            }
        }
        let m = self.map(si);
        if m.len() != act.len() {
            vio!(self, "postpanic/len", "after a {} panic len()={} but {} occupied slots", class.name(), m.len(), act.len());
        }
        // len() == number yielded. The iterator is bounded by items, so guard it.
        let yielded = {
            let mref = self.slots[si].map.as_ref().unwrap();
            let nop = Op::new(Kd::Nop);
            match self.ctx.call(&nop, || mref.iter().map(|(k, v)| (k.id(), v.val())).collect::<Vec<_>>()) {
                Out::Ok(v) => v,
                _ => vio!(self, "postpanic/iter", "iteration after a {} panic panicked", class.name()),
            }
        };
        if yielded.len() != act.len() {
            vio!(self, "postpanic/len", "after a {} panic len()={} but iter() yields {}", class.name(), act.len(), yielded.len());
        }
        // no duplicate keys, every survivor explained
        let mut seen = BTreeMap::new();
        for (e, _) in &act {
            if seen.insert(e.kid, ()).is_some() {
                vio!(self, "postpanic/duplicate-key", "key {} stored twice after a {} panic", e.kid, class.name());
            }
            let old = fc.before.get(e.kid);
            let key_ok = match old {
                Some(o) => !K::HAS_SERIAL || o.ks == e.ks || fc.fresh_ok || fc.allowed.iter().any(|a| a.0 == e.kid),
                None => fc.allowed.iter().any(|a| a.0 == e.kid),
            };
            let val_ok = match old {
                Some(o) if o.v == e.v => true,
                Some(o) if fc.toggles && (o.v ^ Self::TG) == e.v => true,
                _ => fc.allowed.iter().any(|a| a.0 == e.kid && (a.1 == e.v || (fc.toggles && (a.1 ^ Self::TG) == e.v))),
            };
            if !key_ok || !val_ok {
                vio!(self, "postpanic/alien-element", "after a {} panic the map holds ({}, {}) which is neither an old entry nor an argument (old: {:?})", class.name(), e.kid, e.v, old);
            }
        }
        // findable (lawful hash/eq only)
        if self.ctx.functional() {
            for (e, _) in &act {
                let probe_h = K::view(e.kid);
                let probe: &K::View = &*probe_h;
                let mref = self.slots[si].map.as_ref().unwrap();
                let nop = Op::new(Kd::Nop);
                let got = match self.ctx.call(&nop, || mref.get(probe).map(|v| v.serial())) {
                    Out::Ok(g) => g,
                    _ => vio!(self, "postpanic/get", "lookup after a {} panic panicked", class.name()),
                };
                if got != Some(e.vs) {
                    vio!(self, "postpanic/unfindable", "after a {} panic key {} is stored but get() returns {:?}", class.name(), e.kid, got);
                }
            }
        }
        // every element that left the table was dropped exactly once (double drops were drained above);
        // a leak is tolerated only when the panic came out of a destructor.
        if class != Class::Drop && !self.ctx.drop_fault_fired {
            let s = sim();
            for b in &fc.before.e {
                if K::HAS_SERIAL && !act.iter().any(|(e, _)| e.ks == b.ks) && s.serial_state[b.ks as usize] == 1 {
                    drop(s);
                    vio!(self, "postpanic/leaked-element", "key {} (serial {}) left the map during a {} panic but was never dropped", b.kid, b.ks, class.name());
                }
                if V::HAS_SERIAL && !act.iter().any(|(e, _)| e.vs == b.vs) && s.serial_state[b.vs as usize] == 1 {
                    drop(s);
                    vio!(self, "postpanic/leaked-element", "value serial {} of key {} left the map during a {} panic but was never dropped", b.vs, b.kid, class.name());
                }
            }
            for &a in &fc.arg_serials {
                if a != 0 && s.serial_state[a as usize] == 1 && !act.iter().any(|(e, _)| e.ks == a || e.vs == a) {
                    drop(s);
                    vio!(self, "postpanic/leaked-element", "argument serial {a} was neither stored nor dropped after a {} panic", class.name());
                }
            }
        }
        // growth into a new allocation interrupted by the hasher: contents unchanged, new block returned
        if class == Class::Hash && grew && !fc.multi {
            let mut a: Vec<ME> = act.iter().map(|x| x.0).collect();
            a.sort();
            if a != fc.before.sorted() {
                vio!(self, "postpanic/grow-changed-contents", "a hasher panic while growing into a new allocation changed the contents: {} entries before, {} after", fc.before.e.len(), a.len());
            }
            if self.live_blocks() != fc.blocks_before {
                vio!(self, "postpanic/grow-leaked-block", "live blocks before {} after {}", fc.blocks_before, self.live_blocks());
            }
        }
        // re-synchronise the model with the validated contents and carry on under full checking
        self.slots[si].model.e = act.into_iter().map(|x| x.0).collect();
        self.ctx.note_state(&d);
        Ok(())
    }

    // ------------------------------------------------------------------ after every operation
    pub fn check_slot(&mut self, si: usize) -> VResult {
        self.ctx.drain_callback_violations()?;
        let d = hashbrown::verif::dump_map(self.map(si));
        if let Some((c, det)) = dump::check(&d).into_iter().next() {
            vio!(self, c, "{det}");
        }
        self.ctx.note_state(&d);
        self.ctx.group_monitor(&d)?;
        if let Some((c, det)) = dump::check_budget(&d) {
            vio!(self, c, "{det}");
        }
        let act = self.actual(si);
        for (e, ok) in &act {
            if !ok {
                vio!(self, "ledger/invalid-ref", "slot holds key {} serial {} / value serial {} that is not a live element", e.kid, e.ks, e.vs);
            }
        }
        let (len, cap, empty) = {
            let m = self.map(si);
            (m.len(), m.capacity(), m.is_empty())
        };
        if len != act.len() {
            vio!(self, "inv/I2", "len()={} but {} occupied slots", len, act.len());
        }
        if cap < len {
            vio!(self, "cap/less-than-len", "capacity()={cap} < len()={len}");
        }
        if empty != (len == 0) {
            vio!(self, format!("len/{}", self.ctx.op_kind), "is_empty()={empty} with len()={len}");
        }
        if !self.ctx.functional() {
            let mref = self.slots[si].map.as_ref().unwrap();
            let nop = Op::new(Kd::Nop);
            match self.ctx.call(&nop, || mref.iter().count()) {
                Out::Ok(n) if n == len => {}
                Out::Ok(n) => vio!(self, "byz/len-iter", "len()={len} but iter() yields {n}"),
                _ => vio!(self, "byz/len-iter", "iter() panicked"),
            }
            return self.check_alloc_balance();
        }
        let model = &self.slots[si].model;
        if len != model.e.len() {
            vio!(self, format!("len/{}", self.ctx.op_kind), "len()={} but the model holds {}", len, model.e.len());
        }
        let mut a: Vec<ME> = act.iter().map(|x| x.0).collect();
        a.sort();
        let ms = model.sorted();
        if a != ms {
            let diff = a.iter().zip(ms.iter()).find(|(x, y)| x != y);
            vio!(self, format!("contents/{}", self.ctx.op_kind), "stored entries differ from the model; first difference (actual, model) = {:?}", diff);
        }
        if !K::HAS_SERIAL && K::HAS_DROP && !self.ctx.drop_fault_fired {
            // elements without a serial are tracked as a multiset: everything live must be stored in a slot
            let stored: i64 = self.slots.iter().map(|s| s.model.e.len() as i64).sum();
            let live = sim().ms_live_total();
            if live != stored + self.ctx.leaked_ms {
                vio!(self, if live > stored + self.ctx.leaked_ms { "ledger/leak" } else { "ledger/double-drop" }, "{live} droppable elements are live, the collections hold {stored} (+{} deliberately leaked)", self.ctx.leaked_ms);
            }
        }
        self.ctx.transcript_add(si, len, a.iter().flat_map(|e| [e.kid as u64, e.v as u64]));
        if len as u32 <= self.ctx.cfg.sweep_below {
            self.sweep(si)?;
        }
        if self.ctx.cfg.churn_bound > 0 {
            // C13: memory stays within a fixed multiple of what the peak live size needs
            if len > self.peak[si].0 || self.peak[si].1 == 0 {
                let p = len.max(self.peak[si].0).max(1);
                let fresh: SMap<K, V> = HashMap::with_capacity_and_hasher_in(p, SimBuildHasher::new(Plan::Const0), SimAlloc);
                self.peak[si] = (p, fresh.allocation_size());
            }
            let sz = self.map(si).allocation_size();
            let bound = self.peak[si].1 * self.ctx.cfg.churn_bound as usize;
            if sz > bound {
                vio!(self, "churn/memory", "allocation_size()={sz} exceeds {} x {} bytes (what a fresh table for the peak live size {} needs) with {len} live elements", self.ctx.cfg.churn_bound, self.peak[si].1, self.peak[si].0);
            }
            if self.ctx.ops_executed > 2000 {
                sim().probe(Probe::ChurnLong);
            }
        }
        self.check_alloc_balance()
    }

    /// `get` of every model key and of a few absent keys, and `iter()` contents, through the real API.
    pub fn sweep(&mut self, si: usize) -> VResult {
        let ids = self.slots[si].model.ids();
        let nop = Op::new(Kd::Nop);
        for (n, &kid) in ids.iter().enumerate() {
            let want = self.slots[si].model.get(kid).unwrap();
            let mref = self.slots[si].map.as_ref().unwrap();
            // alternate between the key type itself and its borrowed view
            let got = if n % 2 == 0 {
                let probe_h = K::view(kid);
                let probe: &K::View = &*probe_h;
                self.ctx.call(&nop, || mref.get_key_value(probe).map(|(k, v)| (k.serial(), v.val(), v.serial())))
            } else {
                let probe = K::make(kid);
                let r = self.ctx.call(&nop, || mref.get_key_value(&probe).map(|(k, v)| (k.serial(), v.val(), v.serial())));
                drop(probe);
                r
            };
            match got {
                Out::Ok(Some(g)) if g == (want.ks, want.v, want.vs) => {}
                Out::Ok(g) => vio!(self, format!("sweep/{}", self.ctx.op_kind), "get({kid}) returned {:?}, model has {:?}", g, want),
                _ => vio!(self, format!("sweep/{}", self.ctx.op_kind), "get({kid}) panicked"),
            }
        }
        let mx = ids.iter().copied().max().unwrap_or(0);
        for j in 0..3u32 {
            let kid = (mx + 1 + j * 7) % K::UNIVERSE;
            if self.slots[si].model.pos(kid).is_some() {
                continue;
            }
            let probe_h = K::view(kid);
            let probe: &K::View = &*probe_h;
            let mref = self.slots[si].map.as_ref().unwrap();
            match self.ctx.call(&nop, || mref.contains_key(probe)) {
                Out::Ok(false) => {}
                Out::Ok(true) => vio!(self, format!("sweep/{}", self.ctx.op_kind), "contains_key({kid}) is true for a key that is not in the model"),
                _ => vio!(self, format!("sweep/{}", self.ctx.op_kind), "contains_key({kid}) panicked"),
            }
        }
        let mref = self.slots[si].map.as_ref().unwrap();
        let mut it: Vec<ME> = match self.ctx.call(&nop, || mref.iter().map(|(k, v)| ME { kid: k.id(), ks: k.serial(), v: v.val(), vs: v.serial() }).collect()) {
            Out::Ok(v) => v,
            _ => vio!(self, format!("sweep/{}", self.ctx.op_kind), "iter() panicked"),
        };
        it.sort();
        if it != self.slots[si].model.sorted() {
            vio!(self, format!("sweep/{}", self.ctx.op_kind), "iter() yields {} entries that differ from the model's {}", it.len(), self.slots[si].model.e.len());
        }
        Ok(())
    }

    /// I5: bytes and blocks held from the allocator equal what the live collections report.
    pub fn check_alloc_balance(&mut self) -> VResult {
        if self.ctx.drop_fault_fired {
            return Ok(());
        }
        let mut sum = 0u64;
        let mut blocks = 0u64;
        for s in &self.slots {
            if let Some(m) = &s.map {
                let a = m.allocation_size() as u64;
                sum += a;
                if a > 0 {
                    blocks += 1;
                }
            }
        }
        let (live, nblocks, findings) = {
            let s = sim();
            (crate::alloc::live_bytes(&s), s.blocks.len() as u64, crate::alloc::audit_live(&s))
        };
        if let Some((c, d)) = findings.into_iter().next() {
            vio!(self, c, "{d}");
        }
        if live != sum + self.ctx.leaked_bytes || nblocks != blocks + self.ctx.leaked_blocks {
            vio!(self, "alloc/size-mismatch", "allocator holds {live} bytes in {nblocks} blocks, collections report {sum} bytes in {blocks} blocks (+{} bytes deliberately leaked)", self.ctx.leaked_bytes);
        }
        Ok(())
    }

    pub(crate) fn touch(&mut self, si: usize, before: &Shape) -> VResult {
        let after = self.shape(si);
        let hashes = self.ctx.last_counts[Class::Hash as usize];
        self.ctx.note_transition(before, &after, hashes);
        // I6: while the bucket count stays the same, growth_left + items + tombstones is conserved (every
        // operation only moves slots between the three accounts)
        if !before.singleton && !after.singleton && before.buckets == after.buckets {
            let (b, a) = (before.growth_left + before.items + before.deleted, after.growth_left + after.items + after.deleted);
            if a != b {
                vio!(self, "inv/I6", "capacity budget changed at constant bucket count {}: growth_left+items+tombstones {} -> {} (before: {}+{}+{}, after: {}+{}+{})", after.buckets, b, a, before.growth_left, before.items, before.deleted, after.growth_left, after.items, after.deleted);
            }
        }
        if !self.ctx.functional() {
            // byzantine Hash/Eq: results are unspecified; the model only mirrors the stored instances
            let act = self.actual(si);
            self.slots[si].model.e = act.into_iter().map(|x| x.0).collect();
        }
        self.check_slot(si)
    }

    // ------------------------------------------------------------------ the interpreter
    pub fn exec_op(&mut self, idx: usize, op: &Op) -> VResult {
        self.ctx.op_index = idx;
        self.ctx.op_kind = format!("{:?}", op.k);
        self.ctx.ops_executed += 1;
        self.ctx.main_recorded = false;
        self.ctx.main_counts = [0; crate::state::NCLASS];
        self.ctx.main_alloc_calls = 0;
        self.ctx.sig.add(op.k as u64);
        let si = (op.s as usize) % self.slots.len();
        let ti = (op.t as usize) % self.slots.len();
        let before = self.shape(si);
        match op.k {
            Kd::Nop => return Ok(()),
            Kd::New | Kd::WithCapacity | Kd::DropSlot => self.op_new(si, op)?,
            Kd::Insert => self.op_insert(si, op)?,
            Kd::TryInsert => self.op_try_insert(si, op)?,
            Kd::Get | Kd::GetMut | Kd::GetView | Kd::ContainsKey | Kd::GetKeyValue | Kd::GetKeyValueMut => self.op_lookup(si, op)?,
            Kd::Remove | Kd::RemoveEntry | Kd::RemoveView => self.op_remove(si, op)?,
            Kd::Clear => self.op_clear(si, op)?,
            Kd::Reserve | Kd::ShrinkTo | Kd::ShrinkToFit => self.op_capacity(si, op)?,
            Kd::TryReserve => self.op_try_reserve(si, op)?,
            Kd::Extend | Kd::ExtendRef | Kd::FromIter => self.op_extend(si, op)?,
            Kd::Retain => self.op_retain(si, op)?,
            Kd::ExtractIf => self.op_extract_if(si, op)?,
            Kd::Drain => self.op_drain(si, op)?,
            Kd::Iter => self.op_iter(si, op)?,
            Kd::IntoIter => self.op_into_iter(si, op)?,
            Kd::CloneTo | Kd::CloneFrom => {
                let tb = self.shape(ti);
                self.op_clone(si, ti, op)?;
                self.touch(ti, &tb)?;
            }
            Kd::EqSlots => self.op_eq(si, ti, op)?,
            Kd::Entry => self.op_entry(si, op)?,
            Kd::GetMany | Kd::GetManyKv => self.op_get_many(si, op)?,
            Kd::FillNoAlloc => self.op_fill_no_alloc(si, op)?,
            Kd::Par => self.op_par(si, ti, op)?,
            Kd::SerdeRoundTrip | Kd::SerdeStream => self.op_serde(si, op)?,
            other => vio!(self, "harness/bad-op", "operation {:?} is not a map operation", other),
        }
        self.touch(si, &before)
    }

    fn op_new(&mut self, si: usize, op: &Op) -> VResult {
        // drop the old map (its elements must all be dropped, its block returned)
        let old = self.slots[si].map.take().unwrap();
        let fc = self.fctx(si, op);
        let out = self.ctx.call(op, move || drop(old));
        let model = std::mem::take(&mut self.slots[si].model);
        let plan = self.slots[si].plan.clone();
        let fresh = |w: &mut Self| {
            w.slots[si].map = Some(new_map::<K, V>(&plan, si));
        };
        match out {
            Out::Ok(()) => {}
            Out::Fault(Class::Drop) => {
                // a destructor panicked while the map was being dropped: leaks are allowed, double drops are not
                fresh(self);
                self.ctx.drain_callback_violations()?;
                let _ = fc;
                return Ok(());
            }
            other => {
                fresh(self);
                self.settle(other, si, fc)?;
                return Ok(());
            }
        }
        {
            let s = sim();
            for e in &model.e {
                if (K::HAS_SERIAL && s.serial_state[e.ks as usize] == 1) || (V::HAS_SERIAL && s.serial_state[e.vs as usize] == 1) {
                    drop(s);
                    fresh(self);
                    vio!(self, "ledger/leak", "dropping the map did not drop entry ({}, {})", e.kid, e.v);
                }
            }
        }
        let calls_before = sim().alloc_calls;
        let nm: SMap<K, V> = match op.k {
            Kd::WithCapacity => HashMap::with_capacity_and_hasher_in(op.a.max(0) as usize, SimBuildHasher::new(plan.clone()), SimAlloc::of_slot(si)),
            Kd::DropSlot => {
                let m: SMap<K, V> = Default::default();
                self.slots[si].plan = Plan::Mixed(0);
                m
            }
            _ => new_map::<K, V>(&plan, si),
        };
        let calls = sim().alloc_calls - calls_before;
        let want_cap = if op.k == Kd::WithCapacity { op.a.max(0) as usize } else { 0 };
        let cap = nm.capacity();
        self.slots[si].map = Some(nm);
        if want_cap == 0 && calls != 0 {
            vio!(self, "cap/alloc-on-new", "constructing an empty map with capacity 0 called the allocator {calls} times");
        }
        if cap < want_cap {
            vio!(self, "cap/with-capacity", "with_capacity({want_cap}) gives capacity() {cap}");
        }
        Ok(())
    }

    fn op_insert(&mut self, si: usize, op: &Op) -> VResult {
        let (kid, val) = (op.a as u32 % K::UNIVERSE, Self::nv(op.b as u32));
        let k = K::make(kid);
        let v = V::make(val);
        let (ks, vs) = (k.serial(), v.serial());
        let mut fc = self.fctx(si, op);
        fc.allowed.push((kid, val));
        fc.arg_serials = vec![ks, vs];
        let cap_room = {
            let m = self.map(si);
            m.capacity() - m.len()
        };
        let present = self.slots[si].model.pos(kid);
        // insert_unique_unchecked: "the key is not in the map" is the caller's obligation
        let unique = op.c == 1 && present.is_none() && self.ctx.functional() && self.ctx.cfg.eq_mode == crate::state::EqMode::Lawful;
        let mut wrong_ref = None;
        let wr = &mut wrong_ref;
        let m = self.slots[si].map.as_mut().unwrap();
        let out = if unique {
            sim().probe(Probe::InsertUniqueUnchecked);
            self.ctx.call(op, || {
                let (kr, vr) = unsafe { m.insert_unique_unchecked(k, v) };
                if (kr.id(), kr.serial(), vr.val(), vr.serial()) != (kid, ks, val, vs) {
                    *wr = Some((kr.id(), kr.serial(), vr.val(), vr.serial()));
                }
                None
            })
        } else {
            self.ctx.call(op, || m.insert(k, v))
        };
        let Some(ret) = self.settle(out, si, fc)? else { return Ok(()) };
        if let Some(w) = wrong_ref {
            vio!(self, "ret/Insert", "insert_unique_unchecked({kid}) returned references to {:?}, not to the inserted pair", w);
        }
        let got = ret.as_ref().map(|o| (o.val(), o.serial()));
        let ret_ok = ret.as_ref().map_or(true, |o| o.intact());
        drop(ret);
        if !ret_ok {
            vio!(self, "ledger/invalid-ref", "insert({kid}) returned a value that is not a live element");
        }
        if !self.ctx.functional() {
            return Ok(());
        }
        match present {
            Some(i) => {
                let old = self.slots[si].model.e[i];
                if got != Some((old.v, old.vs)) {
                    vio!(self, "ret/Insert", "insert({kid}) over an existing key returned {:?}, model expects Some({:?})", got, (old.v, old.vs));
                }
                self.slots[si].model.e[i].v = val;
                self.slots[si].model.e[i].vs = vs;
            }
            None => {
                if got.is_some() {
                    vio!(self, "ret/Insert", "insert({kid}) of an absent key returned {:?}", got);
                }
                self.slots[si].model.e.push(ME { kid, ks, v: val, vs });
                if cap_room > 0 && self.ctx.last_alloc_calls > 0 && self.ctx.functional() {
                    vio!(self, "cap/alloc-with-room", "insert of an absent key with capacity()-len()={cap_room} called the allocator");
                }
            }
        }
        Ok(())
    }

    fn op_try_insert(&mut self, si: usize, op: &Op) -> VResult {
        let (kid, val) = (op.a as u32 % K::UNIVERSE, Self::nv(op.b as u32));
        let k = K::make(kid);
        let v = V::make(val);
        let (ks, vs) = (k.serial(), v.serial());
        let mut fc = self.fctx(si, op);
        fc.allowed.push((kid, val));
        fc.arg_serials = vec![ks, vs];
        let present = self.slots[si].model.get(kid);
        let m = self.slots[si].map.as_mut().unwrap();
        let out = self.ctx.call(op, || match m.try_insert(k, v) {
            Ok(r) => Ok((r.val(), r.serial())),
            Err(e) => Err((e.entry.key().serial(), e.entry.get().val(), e.entry.get().serial(), e.value)),
        });
        let Some(ret) = self.settle(out, si, fc)? else { return Ok(()) };
        if !self.ctx.functional() {
            return Ok(());
        }
        match (present, ret) {
            (None, Ok(r)) => {
                if r != (val, vs) {
                    vio!(self, "ret/TryInsert", "try_insert({kid}) returned a reference to {:?}, expected the new value {:?}", r, (val, vs));
                }
                self.slots[si].model.e.push(ME { kid, ks, v: val, vs });
            }
            (Some(o), Err((eks, ev, evs, back))) => {
                let b = (back.val(), back.serial());
                drop(back);
                if (eks, ev, evs) != (o.ks, o.v, o.vs) || b != (val, vs) {
                    vio!(self, "ret/TryInsert", "try_insert({kid}) on an occupied key reported entry {:?} / value {:?}, model expects {:?} / {:?}", (eks, ev, evs), b, o, (val, vs));
                }
            }
            (p, r) => vio!(self, "ret/TryInsert", "try_insert({kid}): model has {:?}, call returned is_ok={}", p, r.is_ok()),
        }
        Ok(())
    }

    fn op_lookup(&mut self, si: usize, op: &Op) -> VResult {
        let kid = op.a as u32 % K::UNIVERSE;
        let newv = Self::nv(op.b as u32);
        let fc = self.fctx(si, op);
        let want = self.slots[si].model.get(kid);
        if want.is_none() {
            let sh = self.shape(si);
            if sh.deleted > 0 && sh.growth_left == 0 {
                sim().probe(Probe::LookupAbsentSaturated);
            }
        }
        let m = self.slots[si].map.as_mut().unwrap();
        let probe = K::make(kid);
        let view_h = K::view(kid);
        let view: &K::View = &*view_h;
        // result: (found, key serial or 0, val, val serial)
        let out = match op.k {
            Kd::Get => self.ctx.call(op, || m.get(&probe).map(|v| (0, v.val(), v.serial(), v.intact()))),
            // `map[&key]`: panics exactly when the key is absent
            Kd::GetView if op.c == 1 && op.f.is_none() => {
                sim().probe(Probe::IndexOp);
                let mr = &*m;
                self.ctx.call(op, || {
                    std::panic::catch_unwind(std::panic::AssertUnwindSafe(|| {
                        let v = &mr[view];
                        (0, v.val(), v.serial(), v.intact())
                    }))
                    .ok()
                })
            }
            Kd::GetView => self.ctx.call(op, || m.get(view).map(|v| (0, v.val(), v.serial(), v.intact()))),
            Kd::ContainsKey => self.ctx.call(op, || if m.contains_key(&probe) { Some((0, 0, 0, true)) } else { None }),
            Kd::GetKeyValue => self.ctx.call(op, || m.get_key_value(view).map(|(k, v)| (k.serial(), v.val(), v.serial(), k.intact() && v.intact()))),
            Kd::GetMut => self.ctx.call(op, || {
                m.get_mut(&probe).map(|v| {
                    let r = (0, v.val(), v.serial(), v.intact());
                    v.set(newv);
                    r
                })
            }),
            _ => self.ctx.call(op, || {
                m.get_key_value_mut(view).map(|(k, v)| {
                    let r = (k.serial(), v.val(), v.serial(), k.intact() && v.intact());
                    v.set(newv);
                    r
                })
            }),
        };
        drop(probe);
        let Some(got) = self.settle(out, si, fc)? else { return Ok(()) };
        if let Some((_, _, _, false)) = got {
            vio!(self, "ledger/invalid-ref", "{:?}({kid}) handed out a reference to something that is not a live element", op.k);
        }
        if !self.ctx.functional() {
            // byzantine mode: results are unspecified, but a mutation must be mirrored
            if let (Some((_, _, vs, _)), true) = (got, matches!(op.k, Kd::GetMut | Kd::GetKeyValueMut)) {
                if let Some(e) = self.slots[si].model.e.iter_mut().find(|e| e.vs == vs && V::HAS_SERIAL) {
                    e.v = newv;
                }
            }
            return Ok(());
        }
        let class = format!("ret/{:?}", op.k);
        match (want, got) {
            (None, None) => {}
            (Some(w), Some((ks, v, vs, _))) => {
                let key_ok = ks == 0 || ks == w.ks || !matches!(op.k, Kd::GetKeyValue | Kd::GetKeyValueMut);
                let val_ok = op.k == Kd::ContainsKey || (v == w.v && vs == w.vs);
                if !key_ok || !val_ok {
                    vio!(self, class, "{:?}({kid}) returned key serial {ks} value ({v}, serial {vs}); model has {:?}", op.k, w);
                }
                if matches!(op.k, Kd::GetMut | Kd::GetKeyValueMut) {
                    let i = self.slots[si].model.pos(kid).unwrap();
                    self.slots[si].model.e[i].v = newv;
                }
            }
            (w, g) => vio!(self, class, "{:?}({kid}) returned {:?}; model has {:?}", op.k, g.map(|x| (x.1, x.2)), w),
        }
        Ok(())
    }

    fn op_remove(&mut self, si: usize, op: &Op) -> VResult {
        let kid = op.a as u32 % K::UNIVERSE;
        let fc = self.fctx(si, op);
        let want = self.slots[si].model.get(kid);
        let m = self.slots[si].map.as_mut().unwrap();
        let probe = K::make(kid);
        let view_h = K::view(kid);
        let view: &K::View = &*view_h;
        let out = match op.k {
            Kd::Remove => self.ctx.call(op, || m.remove(&probe).map(|v| (None, v))),
            Kd::RemoveView => self.ctx.call(op, || m.remove(view).map(|v| (None, v))),
            _ => self.ctx.call(op, || m.remove_entry(view).map(|(k, v)| (Some(k), v))),
        };
        drop(probe);
        let Some(got) = self.settle(out, si, fc)? else { return Ok(()) };
        let g = got.as_ref().map(|(k, v)| (k.as_ref().map(|k| (k.id(), k.serial())), v.val(), v.serial(), v.intact() && k.as_ref().map_or(true, |k| k.intact())));
        drop(got);
        if let Some((_, _, _, false)) = g {
            vio!(self, "ledger/invalid-ref", "{:?}({kid}) returned an element that is not live", op.k);
        }
        if !self.ctx.functional() {
            if let Some((_, _, vs, _)) = g {
                if V::HAS_SERIAL {
                    self.slots[si].model.e.retain(|e| e.vs != vs);
                }
            }
            return Ok(());
        }
        let class = format!("ret/{:?}", op.k);
        match (want, g) {
            (None, None) => {}
            (Some(w), Some((k, v, vs, _))) => {
                if (v, vs) != (w.v, w.vs) || k.map_or(false, |k| k != (w.kid, w.ks)) {
                    vio!(self, class, "{:?}({kid}) returned key {:?} value ({v}, {vs}); model has {:?}", op.k, k, w);
                }
                self.slots[si].model.remove(kid);
                // the stored key must have been dropped (remove) or handed back (remove_entry, dropped by us above)
                if K::HAS_SERIAL && sim().serial_state[w.ks as usize] == 1 {
                    vio!(self, "ledger/leak", "{:?}({kid}) did not drop the stored key (serial {})", op.k, w.ks);
                }
            }
            (w, g) => vio!(self, class, "{:?}({kid}) returned {:?}; model has {:?}", op.k, g.map(|x| (x.1, x.2)), w),
        }
        Ok(())
    }

    fn op_clear(&mut self, si: usize, op: &Op) -> VResult {
        let mut fc = self.fctx(si, op);
        fc.fresh_ok = false;
        let cap0 = self.map(si).capacity();
        let size_before = self.map(si).allocation_size();
        let m = self.slots[si].map.as_mut().unwrap();
        let out = self.ctx.call(op, || m.clear());
        let Some(()) = self.settle(out, si, fc)? else { return Ok(()) };
        if !self.ctx.functional() {
            self.slots[si].model.e.clear();
            return Ok(());
        }
        let model = std::mem::take(&mut self.slots[si].model);
        {
            let s = sim();
            for e in &model.e {
                if (K::HAS_SERIAL && s.serial_state[e.ks as usize] == 1) || (V::HAS_SERIAL && s.serial_state[e.vs as usize] == 1) {
                    drop(s);
                    vio!(self, "ledger/leak", "clear() did not drop entry ({}, {})", e.kid, e.v);
                }
            }
        }
        if self.ctx.last_alloc_calls + self.ctx.last_dealloc_calls != 0 || self.map(si).allocation_size() != size_before {
            vio!(self, "cap/clear-changed-allocation", "clear() made {} allocator calls; allocation_size {} -> {}", self.ctx.last_alloc_calls + self.ctx.last_dealloc_calls, size_before, self.map(si).allocation_size());
        }
        if self.map(si).capacity() < cap0 {
            vio!(self, "cap/clear-lost-capacity", "after clear() capacity() is {} (it was {cap0} before)", self.map(si).capacity());
        }
        Ok(())
    }

    fn op_capacity(&mut self, si: usize, op: &Op) -> VResult {
        let n = op.a.max(0) as usize;
        let fc = self.fctx(si, op);
        let (len, cap0, size0) = {
            let m = self.map(si);
            (m.len(), m.capacity(), m.allocation_size())
        };
        let m = self.slots[si].map.as_mut().unwrap();
        let out = match op.k {
            Kd::Reserve => self.ctx.call(op, || m.reserve(n)),
            Kd::ShrinkTo => self.ctx.call(op, || m.shrink_to(n)),
            _ => self.ctx.call(op, || m.shrink_to_fit()),
        };
        let Some(()) = self.settle(out, si, fc)? else { return Ok(()) };
        if !self.ctx.functional() {
            return Ok(());
        }
        let (cap1, size1) = {
            let m = self.map(si);
            (m.capacity(), m.allocation_size())
        };
        match op.k {
            Kd::Reserve => {
                sim().probe(Probe::ReserveRehash);
                if cap1 < len + n {
                    vio!(self, "cap/reserve", "after reserve({n}) capacity()={cap1} < len()+n={}", len + n);
                }
            }
            _ => {
                let mreq = if op.k == Kd::ShrinkTo { n } else { 0 };
                if size1 > size0 {
                    vio!(self, "cap/shrink-grew", "{:?}({mreq}) enlarged the allocation from {size0} to {size1} bytes", op.k);
                }
                let floor = len.max(mreq.min(cap0));
                if cap1 < floor {
                    vio!(self, "cap/shrink-floor", "{:?}({mreq}) left capacity()={cap1} < max(len={len}, min(m, old capacity={cap0}))", op.k);
                }
                if len == 0 && mreq == 0 && size1 != 0 {
                    vio!(self, "cap/shrink-empty", "{:?}(0) on an empty map keeps {size1} bytes", op.k);
                }
                if !(len == 0 && mreq == 0) {
                    // no larger than a fresh with_capacity(max(len, m)) in the same world
                    let fresh: SMap<K, V> = HashMap::with_capacity_and_hasher_in(len.max(mreq), SimBuildHasher::new(Plan::Const0), SimAlloc);
                    let fs = fresh.allocation_size();
                    drop(fresh);
                    if size1 > fs {
                        vio!(self, "cap/shrink-not-tight", "{:?}({mreq}) leaves {size1} bytes (was {size0}), a fresh with_capacity({}) needs {fs}", op.k, len.max(mreq));
                    }
                }
            }
        }
        Ok(())
    }

    fn op_try_reserve(&mut self, si: usize, op: &Op) -> VResult {
        let n = op.a as u64 as usize;
        let fc = self.fctx(si, op);
        let (len, cap0, size0) = {
            let m = self.map(si);
            (m.len(), m.capacity(), m.allocation_size())
        };
        let d0 = hashbrown::verif::dump_map(self.map(si));
        let blocks0 = self.live_blocks();
        let dropped0 = sim().dropped;
        let m = self.slots[si].map.as_mut().unwrap();
        let out = self.ctx.call(op, || m.try_reserve(n));
        let r = match out {
            Out::Panic(msg) => vio!(self, "tryreserve/panic", "try_reserve({n}) panicked: {msg}"),
            o => {
                let Some(r) = self.settle(o, si, fc)? else { return Ok(()) };
                r
            }
        };
        let esz = std::mem::size_of::<(K, V)>() as u128;
        let need = len as u128 + n as u128;
        match r {
            Ok(()) => {
                sim().probe(Probe::TryReserveOk);
                let cap1 = self.map(si).capacity();
                if (cap1 as u128) < need {
                    vio!(self, "tryreserve/ok-too-small", "try_reserve({n}) returned Ok but capacity()={cap1} < len()+additional={need}");
                }
                if need * esz > isize::MAX as u128 {
                    vio!(self, "tryreserve/ok-impossible", "try_reserve({n}) returned Ok for an unrepresentable size");
                }
            }
            Err(ref e) => {
                match *e {
                    hashbrown::TryReserveError::CapacityOverflow => {
                        sim().probe(Probe::CapacityOverflow);
                        if need.saturating_mul(esz + 1).saturating_mul(4) < (isize::MAX as u128) / 4 {
                            vio!(self, "tryreserve/spurious-overflow", "try_reserve({n}) with len {len}, element size {esz} reported CapacityOverflow although the size is comfortably representable");
                        }
                        if self.ctx.last_alloc_calls + self.ctx.last_refused > 0 && need * esz.max(1) > isize::MAX as u128 {
                            vio!(self, "tryreserve/overflow-after-alloc", "CapacityOverflow reported after the allocator had been called");
                        }
                    }
                    hashbrown::TryReserveError::AllocError { ref layout } => {
                        sim().probe(Probe::RefusedAlloc);
                        if need * esz > isize::MAX as u128 {
                            vio!(self, "tryreserve/alloc-for-unrepresentable", "try_reserve({n}) with len {len} and element size {esz} cannot be represented, yet the allocator was asked for {:?} instead of reporting CapacityOverflow", self.ctx.last_refused_layout);
                        }
                        if self.ctx.last_refused == 0 {
                            vio!(self, "tryreserve/phantom-allocerror", "try_reserve({n}) reported AllocError but the allocator refused nothing");
                        }
                        if self.ctx.last_refused_layout != Some((layout.size(), layout.align())) {
                            vio!(self, "tryreserve/wrong-layout", "AllocError carries layout {:?}, the allocator refused {:?}", (layout.size(), layout.align()), self.ctx.last_refused_layout);
                        }
                    }
                }
                // nothing changed, nothing leaked, nothing dropped
                let d1 = hashbrown::verif::dump_map(self.map(si));
                let m = self.map(si);
                if d1 != d0 || m.len() != len || m.capacity() != cap0 || m.allocation_size() != size0 {
                    vio!(self, "tryreserve/err-changed-state", "a failed try_reserve({n}) changed the table: len {}->{}, capacity {}->{}, allocation {}->{}", len, m.len(), cap0, m.capacity(), size0, m.allocation_size());
                }
                if self.live_blocks() != blocks0 {
                    vio!(self, "tryreserve/err-leak", "a failed try_reserve({n}) changed the number of live blocks {} -> {}", blocks0, self.live_blocks());
                }
                if sim().dropped != dropped0 {
                    vio!(self, "tryreserve/err-dropped", "a failed try_reserve({n}) dropped elements");
                }
            }
        }
        if need * esz.max(1) > isize::MAX as u128 && r.is_ok() && esz > 0 {
            vio!(self, "tryreserve/ok-impossible", "Ok for more than isize::MAX bytes");
        }
        Ok(())
    }

    /// `HashMap::from([(K, V); N])`: exists only for the default hasher, which is randomly seeded: the callbacks of
    /// this section are not counted (their number depends on the seed), the result does not depend on it: same
    /// contents as inserting the pairs in order (first key instance kept, last value wins), every other
    /// instance dropped exactly once, and everything dropped with the map.
    fn op_from_array(&mut self, op: &Op, pairs: &[(u32, u32)]) -> VResult {
        type DMap<K, V> = hashbrown::HashMap<K, V, hashbrown::DefaultHashBuilder, crate::alloc::SimAlloc>;
        fn build<K: KeyT, V: ValT, const N: usize>(items: Vec<(K, V)>) -> DMap<K, V> {
            let arr: [(K, V); N] = match items.try_into() {
                Ok(a) => a,
                Err(_) => unreachable!(),
            };
            DMap::from(arr)
        }
        let items: Vec<(K, V)> = pairs.iter().map(|&(i, v)| (K::make(i), V::make(v))).collect();
        let toks: Vec<(u32, u32, u32, u32)> = items.iter().map(|(k, v)| (k.id(), k.serial(), v.val(), v.serial())).collect();
        sim().probe(Probe::FromArray);
        sim().quiet = true;
        let extra = [0usize, 0, 1, 3, 9, 23, 100][(pairs.iter().map(|p| p.0).sum::<u32>() as usize + pairs.len()) % 7];
        let r = std::panic::catch_unwind(std::panic::AssertUnwindSafe(|| {
            let m: DMap<K, V> = match items.len() {
                0 => build::<K, V, 0>(items),
                1 => build::<K, V, 1>(items),
                2 => build::<K, V, 2>(items),
                3 => build::<K, V, 3>(items),
                4 => build::<K, V, 4>(items),
                5 => build::<K, V, 5>(items),
                _ => build::<K, V, 8>(items),
            };
            let got: Vec<ME> = m.iter().map(|(k, v)| ME { kid: k.id(), ks: k.serial(), v: v.val(), vs: v.serial() }).collect();
            let len = m.len();
            let ok = m.iter().all(|(k, v)| k.intact() && v.intact());
            drop(m);
            let ct = crate::ctors::map_ctors::<K, V>(pairs, extra);
            (got, len, ok, ct)
        }));
        sim().quiet = false;
        let _ = op;
        let (mut got, len, ok, ct) = match r {
            Ok(x) => x,
            Err(_) => vio!(self, "panic/FromIter", "HashMap::from(array of {} pairs) panicked", toks.len()),
        };
        if let Err((class, msg)) = ct {
            vio!(self, class, "{}", msg);
        }
        if !ok {
            vio!(self, "ledger/invalid-ref", "HashMap::from(array) holds an element that is not live");
        }
        let mut want: Vec<ME> = Vec::new();
        for t in &toks {
            match want.iter_mut().find(|e| e.kid == t.0) {
                Some(e) => {
                    e.v = t.2;
                    e.vs = t.3;
                }
                None => want.push(ME { kid: t.0, ks: t.1, v: t.2, vs: t.3 }),
            }
        }
        got.sort();
        want.sort();
        if got != want || len != want.len() {
            vio!(self, "ret/FromIter", "HashMap::from(array of {} pairs) holds {} entries (len() {len}), inserting the pairs in order gives {}: {:?} vs {:?}", toks.len(), got.len(), want.len(), got, want);
        }
        let s = sim();
        for t in &toks {
            if (K::HAS_SERIAL && s.serial_state[t.1 as usize] != 2) || (V::HAS_SERIAL && s.serial_state[t.3 as usize] != 2) {
                drop(s);
                vio!(self, "ledger/leak", "after HashMap::from(array) and dropping the map the instance for key {} (serials {} / {}) was not dropped exactly once", t.0, t.1, t.3);
            }
        }
        Ok(())
    }

    /// The map seen as a map of plain-data pairs, if that is what it is (the by-reference `Extend` impls need
    /// `K: Copy, V: Copy`, which a generic world cannot promise).
    pub(crate) fn pod_map(m: &mut SMap<K, V>) -> Option<&mut SMap<crate::elem::PodKey, u32>> {
        if std::any::TypeId::of::<(K, V)>() == std::any::TypeId::of::<(crate::elem::PodKey, u32)>() {
            // SAFETY: the two types are the same type
            Some(unsafe { &mut *(m as *mut SMap<K, V> as *mut SMap<crate::elem::PodKey, u32>) })
        } else {
            None
        }
    }

    fn op_extend(&mut self, si: usize, op: &Op) -> VResult {
        // v = [id, val, id, val, ...]; a = claimed lower size hint (-1 = honest); c = 1: iterator panics after b items
        let pairs: Vec<(u32, u32)> = op.v.chunks(2).filter(|c| c.len() == 2).map(|c| (c[0] as u32 % K::UNIVERSE, Self::nv(c[1] as u32))).collect();
        if op.k == Kd::FromIter && op.b == 1 && op.f.is_none() && self.ctx.functional() && self.ctx.cfg.eq_mode == crate::state::EqMode::Lawful && matches!(pairs.len(), 0..=5 | 8) {
            return self.op_from_array(op, &pairs);
        }
        let items: Vec<(K, V)> = pairs.iter().map(|&(i, v)| (K::make(i), V::make(v))).collect();
        let toks: Vec<(u32, u32, u32, u32)> = items.iter().map(|(k, v)| (k.id(), k.serial(), v.val(), v.serial())).collect();
        let mut fc = self.fctx(si, op);
        fc.allowed = pairs.clone();
        fc.multi = true;
        fc.arg_serials = toks.iter().flat_map(|t| [t.1, t.3]).collect();
        let hint = op.a;
        let room = {
            let m = self.map(si);
            m.capacity() - m.len()
        };
        let src = SimSource { items: items.into_iter(), hint: if hint < 0 { None } else { Some(hint as usize) } };
        if hint >= 0 {
            sim().probe(Probe::SerdeLyingHint);
        }
        let out = if op.k == Kd::ExtendRef && Self::pod_map(self.slots[si].map.as_mut().unwrap()).is_some() {
            // `Extend<(&K, &V)>` / `Extend<&(K, V)>` exist for `Copy` pairs only: the world of plain-data pairs
            sim().probe(Probe::ExtendByRef);
            drop(src);
            let pod: Vec<(crate::elem::PodKey, u32)> = pairs.iter().map(|&(k, v)| (crate::elem::PodKey(k), v)).collect();
            let m = Self::pod_map(self.slots[si].map.as_mut().unwrap()).unwrap();
            if op.c % 2 == 0 {
                self.ctx.call(op, || m.extend(pod.iter().map(|(k, v)| (k, v))))
            } else {
                self.ctx.call(op, || m.extend(pod.iter()))
            }
        } else if op.k != Kd::FromIter {
            let m = self.slots[si].map.as_mut().unwrap();
            self.ctx.call(op, || m.extend(src))
        } else {
            fc.fresh_ok = true;
            let old = self.slots[si].map.take().unwrap();
            drop(old);
            self.slots[si].model.e.clear();
            fc.before = MapModel::default();
            let slot = &mut self.slots[si].map;
            *slot = Some(Default::default());
            self.slots[si].plan = Plan::Mixed(0);
            let out = self.ctx.call(op, || src.collect::<SMap<K, V>>());
            match out {
                Out::Ok(m) => {
                    self.slots[si].map = Some(m);
                    Out::Ok(())
                }
                Out::Fault(c) => Out::Fault(c),
                Out::Ceiling(n) => Out::Ceiling(n),
                Out::Diverge(n) => Out::Diverge(n),
                Out::Panic(p) => Out::Panic(p),
            }
        };
        if self.ctx.last_alloc_calls > 0 {
            sim().probe(Probe::ExtendGrow);
        }
        let allocs = self.ctx.last_alloc_calls;
        let Some(()) = self.settle(out, si, fc)? else { return Ok(()) };
        if !self.ctx.functional() {
            return Ok(());
        }
        if op.k != Kd::FromIter && hint < 0 && toks.len() <= room && allocs > 0 {
            vio!(self, "cap/alloc-with-room", "extend with {} pairs from an honest source into a map with capacity()-len()={room} called the allocator", toks.len());
        }
        for t in toks {
            match self.slots[si].model.pos(t.0) {
                Some(i) => {
                    self.slots[si].model.e[i].v = t.2;
                    self.slots[si].model.e[i].vs = t.3;
                }
                None => self.slots[si].model.e.push(ME { kid: t.0, ks: t.1, v: t.2, vs: t.3 }),
            }
        }
        Ok(())
    }

    fn op_retain(&mut self, si: usize, op: &Op) -> VResult {
        // v = ids to keep; b != 0: toggle the value of every visited entry
        let keep: Vec<u32> = op.v.iter().map(|&x| x as u32).collect();
        let toggle = op.b != 0;
        let mut fc = self.fctx(si, op);
        fc.toggles = toggle;
        let mut seen: Vec<(u32, u32)> = Vec::new();
        let m = self.slots[si].map.as_mut().unwrap();
        let seen_ref = &mut seen;
        let out = self.ctx.call(op, || {
            m.retain(|k, v| {
                tick(Class::Pred);
                seen_ref.push((k.id(), k.serial()));
                if toggle {
                    v.set(v.val() ^ Self::TG);
                }
                keep.contains(&k.id())
            })
        });
        let Some(()) = self.settle(out, si, fc)? else { return Ok(()) };
        if !self.ctx.functional() {
            let act = self.actual(si);
            self.slots[si].model.e = act.into_iter().map(|x| x.0).collect();
            return Ok(());
        }
        // predicate called exactly once per element
        let mut s1 = seen.clone();
        s1.sort();
        let mut s2: Vec<(u32, u32)> = self.slots[si].model.e.iter().map(|e| (e.kid, e.ks)).collect();
        s2.sort();
        if s1 != s2 {
            vio!(self, "retain/visits", "retain called its predicate on {} elements, the map held {}; multisets differ", s1.len(), s2.len());
        }
        let model = &mut self.slots[si].model;
        if toggle {
            for e in model.e.iter_mut() {
                e.v ^= Self::TG;
            }
        }
        let removed: Vec<ME> = model.e.iter().filter(|e| !keep.contains(&e.kid)).copied().collect();
        model.e.retain(|e| keep.contains(&e.kid));
        let s = sim();
        for e in &removed {
            if (K::HAS_SERIAL && s.serial_state[e.ks as usize] == 1) || (V::HAS_SERIAL && s.serial_state[e.vs as usize] == 1) {
                drop(s);
                vio!(self, "ledger/leak", "retain removed ({}, {}) without dropping it", e.kid, e.v);
            }
        }
        Ok(())
    }

    fn op_extract_if(&mut self, si: usize, op: &Op) -> VResult {
        // v = ids for which the predicate answers true; a = number of next() calls (-1 = exhaust);
        // b: 0 drop, 1 forget; c != 0 toggles values of visited entries
        let yes: Vec<u32> = op.v.iter().map(|&x| x as u32).collect();
        let steps = op.a;
        let forget = op.b == 1;
        let toggle = op.c != 0;
        let mut fc = self.fctx(si, op);
        fc.toggles = toggle;
        let mut visited: Vec<(u32, u32)> = Vec::new();
        let n0 = self.slots[si].model.e.len();
        let mut hint_errs: Vec<String> = Vec::new();
        let er = &mut hint_errs;
        let m = self.slots[si].map.as_mut().unwrap();
        let vis = &mut visited;
        let out = self.ctx.call(op, || {
            let mut it = m.extract_if(|k, v| {
                tick(Class::Pred);
                vis.push((k.id(), k.serial()));
                if toggle {
                    v.set(v.val() ^ Self::TG);
                }
                yes.contains(&k.id())
            });
            let (got, errs) = crate::iterdrv::drive_extract(&mut it, steps, n0);
            *er = errs;
            if forget {
                std::mem::forget(it);
            } else {
                drop(it);
            }
            got
        });
        {
            let mut s = sim();
            if forget {
                s.probe(Probe::LeakExtract);
            } else if steps >= 0 {
                s.probe(Probe::EarlyDropExtract);
            }
        }
        let Some(got) = self.settle(out, si, fc)? else { return Ok(()) };
        let g: Vec<ME> = got.iter().map(|(k, v)| ME { kid: k.id(), ks: k.serial(), v: v.val(), vs: v.serial() }).collect();
        let intact = got.iter().all(|(k, v)| k.intact() && v.intact());
        drop(got);
        if !intact {
            vio!(self, "ledger/invalid-ref", "extract_if yielded an element that is not live");
        }
        if !self.ctx.functional() {
            let act = self.actual(si);
            self.slots[si].model.e = act.into_iter().map(|x| x.0).collect();
            return Ok(());
        }
        if let Some(e) = hint_errs.into_iter().next() {
            vio!(self, "iterlen/ExtractIf", "{e}");
        }
        // visited: no element twice, all from the map
        let mut vs = visited.clone();
        vs.sort();
        vs.dedup();
        if vs.len() != visited.len() {
            vio!(self, "extract/visit-twice", "extract_if called its predicate twice on the same element");
        }
        let model = &mut self.slots[si].model;
        let mut expect_yield: Vec<ME> = Vec::new();
        for &(kid, ks) in &visited {
            match model.pos(kid) {
                Some(i) if model.e[i].ks == ks => {
                    if toggle {
                        model.e[i].v ^= Self::TG;
                    }
                    if yes.contains(&kid) {
                        expect_yield.push(model.e.swap_remove(i));
                    }
                }
                _ => vio!(self, "extract/visit-alien", "extract_if visited ({kid}, serial {ks}) which is not in the map"),
            }
        }
        let mut a = g.clone();
        a.sort();
        expect_yield.sort();
        if a != expect_yield {
            vio!(self, "extract/yield", "extract_if yielded {:?}, expected exactly the visited elements answered true {:?}", a, expect_yield);
        }
        if steps < 0 && visited.len() != model.e.len() + expect_yield.len() {
            vio!(self, "extract/visits", "an exhausted extract_if visited {} of {} elements", visited.len(), model.e.len() + expect_yield.len());
        }
        Ok(())
    }

    fn op_drain(&mut self, si: usize, op: &Op) -> VResult {
        // a = next() calls (-1 exhaust); b: 0 drop, 1 forget
        let steps = op.a;
        let forget = op.b == 1;
        // b == 2: after the next() calls the rest is consumed through fold()
        let fold = op.b == 2;
        let fc = self.fctx(si, op);
        let cap0 = self.map(si).capacity();
        let size0 = self.map(si).allocation_size();
        let n0 = self.slots[si].model.e.len();
        let m = self.slots[si].map.as_mut().unwrap();
        let out = self.ctx.call(op, || {
            let mut it = m.drain();
            let mut got: Vec<(K, V)> = Vec::new();
            let mut errs: Vec<String> = Vec::new();
            let mut n = 0usize;
            loop {
                let rem = n0 - n.min(n0);
                if it.len() != rem || it.size_hint() != (rem, Some(rem)) {
                    errs.push(format!("after {n} items drain reports len {} size_hint {:?}, true remaining {rem}", it.len(), it.size_hint()));
                    break;
                }
                if steps >= 0 && n as i64 >= steps {
                    break;
                }
                match it.next() {
                    Some(kv) => got.push(kv),
                    None => break,
                }
                n += 1;
            }
            // the "what is left" view of the rustc-internal API: exactly the entries not yet yielded
            let view: Vec<(u32, u32)> = it.rustc_iter().map(|(k, _)| (k.id(), k.serial())).collect();
            let n_view = got.len();
            if fold {
                sim().probe(Probe::DrainFold);
                got = it.fold(got, |mut acc, x| {
                    acc.push(x);
                    acc
                });
            } else if forget {
                std::mem::forget(it);
            } else {
                drop(it);
            }
            (got, errs, view, n_view)
        });
        {
            let mut s = sim();
            if forget {
                s.probe(Probe::LeakDrain);
            } else if steps >= 0 && !fold {
                s.probe(Probe::EarlyDropDrain);
            }
        }
        let Some((got, errs, view, n_view)) = self.settle(out, si, fc)? else { return Ok(()) };
        let mut g: Vec<ME> = got.iter().map(|(k, v)| ME { kid: k.id(), ks: k.serial(), v: v.val(), vs: v.serial() }).collect();
        let intact = got.iter().all(|(k, v)| k.intact() && v.intact());
        drop(got);
        if !intact {
            vio!(self, "ledger/invalid-ref", "drain yielded an element that is not live");
        }
        let model = std::mem::take(&mut self.slots[si].model);
        if forget {
            // a leaked drain leaves an empty, unallocated table behind: the old block is leaked with it
            if size0 > 0 {
                self.ctx.leaked_bytes += size0 as u64;
                self.ctx.leaked_blocks += 1;
            }
            // everything not yielded is leaked: exactly those, and the collection must be a valid empty one
            for e in &model.e {
                if !g.iter().any(|x| x.kid == e.kid) {
                    if K::HAS_SERIAL {
                        self.ctx.leaked_serials.insert(e.ks);
                    } else if K::HAS_DROP {
                        self.ctx.leaked_ms += 1;
                    }
                    if V::HAS_SERIAL {
                        self.ctx.leaked_serials.insert(e.vs);
                    }
                }
            }
        }
        if !self.ctx.functional() {
            return Ok(());
        }
        if let Some(e) = errs.into_iter().next() {
            vio!(self, "iterlen/Drain", "{e}");
        }
        {
            let mut left: Vec<(u32, u32)> = model.e.iter().map(|e| (e.kid, e.ks)).filter(|t| !g[..n_view.min(g.len())].iter().any(|x| (x.kid, x.ks) == *t)).collect();
            left.sort();
            let mut v = view.clone();
            v.sort();
            if v != left {
                vio!(self, "iter/Drain", "after {n_view} items the drain's rustc_iter() shows {} entries, {} have not been yielded yet", v.len(), left.len());
            }
        }
        g.sort();
        let ms = model.sorted();
        let complete = fold || steps < 0 || steps as usize >= n0;
        if complete && g != ms {
            vio!(self, "drain/yield", "a fully consumed drain yielded {} entries, the map held {}", g.len(), ms.len());
        }
        for x in &g {
            if !ms.contains(x) {
                vio!(self, "drain/yield", "drain yielded {:?} which was not in the map", x);
            }
        }
        let mut d = g.clone();
        d.dedup();
        if d.len() != g.len() {
            vio!(self, "drain/yield", "drain yielded an entry twice");
        }
        if !forget {
            let s = sim();
            for e in &ms {
                if !g.contains(e) && ((K::HAS_SERIAL && s.serial_state[e.ks as usize] == 1) || (V::HAS_SERIAL && s.serial_state[e.vs as usize] == 1)) {
                    drop(s);
                    vio!(self, "ledger/leak", "dropping the drain did not drop the unyielded entry ({}, {})", e.kid, e.v);
                }
            }
        }
        let m = self.map(si);
        if m.len() != 0 {
            vio!(self, "drain/not-empty", "after drain the map has len() {}", m.len());
        }
        if !forget && (m.allocation_size() != size0 || self.ctx.last_alloc_calls + self.ctx.last_dealloc_calls != 0) {
            vio!(self, "drain/allocation", "drain changed the allocation: {} -> {} bytes, {} allocator calls", size0, m.allocation_size(), self.ctx.last_alloc_calls + self.ctx.last_dealloc_calls);
        }
        if !forget && self.map(si).capacity() < cap0 {
            vio!(self, "drain/capacity-lost", "after drain capacity() is {} although the collection is empty and keeps its allocation (it was {cap0} before)", self.map(si).capacity());
        }
        Ok(())
    }

    fn op_clone(&mut self, si: usize, ti: usize, op: &Op) -> VResult {
        // CloneTo: slot t = slot s .clone();  CloneFrom: slot t .clone_from(slot s)
        if si == ti {
            return Ok(());
        }
        let mut fc = self.fctx(ti, op);
        fc.fresh_ok = true;
        fc.allowed = self.slots[si].model.e.iter().map(|e| (e.kid, e.v)).collect();
        let src_model = self.slots[si].model.clone();
        let created0 = sim().created;
        let (sb, tb) = (self.shape(si), self.shape(ti));
        let out = if op.k == Kd::CloneTo {
            let old = self.slots[ti].map.take().unwrap();
            drop(old);
            self.slots[ti].model.e.clear();
            fc.before = MapModel::default();
            self.slots[ti].map = Some(new_map::<K, V>(&self.slots[ti].plan.clone(), ti));
            let src = self.slots[si].map.as_ref().unwrap();
            match self.ctx.call(op, || src.clone()) {
                Out::Ok(m) => {
                    self.slots[ti].map = Some(m);
                    Out::Ok(())
                }
                Out::Fault(c) => Out::Fault(c),
                Out::Ceiling(n) => Out::Ceiling(n),
                Out::Diverge(n) => Out::Diverge(n),
                Out::Panic(p) => Out::Panic(p),
            }
        } else {
            {
                let mut s = sim();
                if sb.singleton {
                    s.probe(Probe::CloneFromSrcEmpty);
                } else if sb.buckets == tb.buckets {
                    s.probe(Probe::CloneFromSameBuckets);
                } else {
                    s.probe(Probe::CloneFromDiffBuckets);
                }
                if tb.deleted > 0 {
                    s.probe(Probe::CloneFromDstTombstones);
                }
            }
            let (a, b) = if si < ti {
                let (l, r) = self.slots.split_at_mut(ti);
                (&l[si], &mut r[0])
            } else {
                let (l, r) = self.slots.split_at_mut(si);
                (&r[0], &mut l[ti])
            };
            let src = a.map.as_ref().unwrap();
            let dst = b.map.as_mut().unwrap();
            self.ctx.call(op, || dst.clone_from(src))
        };
        // the clone carries the source's hasher
        let old_model = std::mem::take(&mut self.slots[ti].model);
        self.slots[ti].model = old_model.clone();
        let Some(()) = self.settle(out, ti, fc)? else {
            // after a panic the target's hasher may be either one; lookups in the post-fault oracle used the actual map
            return Ok(());
        };
        self.slots[ti].plan = self.slots[si].plan.clone();
        // contents: same ids and values, fresh serials
        let act = self.actual(ti);
        if self.ctx.functional() {
            let mut a: Vec<(u32, u32)> = act.iter().map(|x| (x.0.kid, x.0.v)).collect();
            a.sort();
            let mut b: Vec<(u32, u32)> = src_model.e.iter().map(|e| (e.kid, e.v)).collect();
            b.sort();
            if a != b {
                vio!(self, format!("clone/{:?}", op.k), "the clone holds {} entries that differ from the source's {}", a.len(), b.len());
            }
            for (e, _) in &act {
                if (K::HAS_SERIAL && src_model.e.iter().any(|s| s.ks == e.ks)) || (V::HAS_SERIAL && src_model.e.iter().any(|s| s.vs == e.vs)) {
                    vio!(self, format!("clone/{:?}", op.k), "the clone shares element instance (serial {}/{}) with the source", e.ks, e.vs);
                }
            }
            let made = sim().created - created0;
            let per = (K::HAS_DROP as u64) + (V::HAS_SERIAL as u64);
            if per > 0 && made != per * src_model.e.len() as u64 {
                vio!(self, format!("clone/{:?}", op.k), "cloning {} entries created {made} element instances, expected {}", src_model.e.len(), per * src_model.e.len() as u64);
            }
            // the old target contents were dropped exactly once
            let s = sim();
            for e in &old_model.e {
                if (K::HAS_SERIAL && s.serial_state[e.ks as usize] == 1) || (V::HAS_SERIAL && s.serial_state[e.vs as usize] == 1) {
                    drop(s);
                    vio!(self, "ledger/leak", "clone_from did not drop the target's old entry ({}, {})", e.kid, e.v);
                }
            }
        }
        self.slots[ti].model.e = act.into_iter().map(|x| x.0).collect();
        // source untouched
        let sa = self.actual(si);
        let mut x: Vec<ME> = sa.iter().map(|x| x.0).collect();
        x.sort();
        if x != src_model.sorted() {
            vio!(self, format!("clone/{:?}", op.k), "cloning changed the source");
        }
        Ok(())
    }

    fn op_eq(&mut self, si: usize, ti: usize, op: &Op) -> VResult {
        // `==` both ways (also of a map with itself), against model equality: same keys with equal values, where
        // a value with the NaN-like payload is not equal to anything, itself included
        let fc = self.fctx(si, op);
        let a = self.slots[si].map.as_ref().unwrap();
        let b = self.slots[ti].map.as_ref().unwrap();
        let out = self.ctx.call(op, || (map_eq(a, b), map_eq(b, a)));
        let Some((ab, ba)) = self.settle(out, si, fc)? else { return Ok(()) };
        if !self.ctx.functional() {
            return Ok(());
        }
        let mut x: Vec<(u32, u32)> = self.slots[si].model.e.iter().map(|e| (e.kid, e.v)).collect();
        let mut y: Vec<(u32, u32)> = self.slots[ti].model.e.iter().map(|e| (e.kid, e.v)).collect();
        x.sort();
        y.sort();
        let nan = V::HAS_NAN && x.iter().any(|p| p.1 == crate::elem::NAN_VAL);
        let want = x == y && !nan;
        if ab != want || ba != want {
            vio!(self, "eq/EqSlots", "a == b is {ab}, b == a is {ba}, the models are equal: {want} (same object: {}, a value unequal to itself present: {nan})", si == ti);
        }
        Ok(())
    }

    fn op_fill_no_alloc(&mut self, si: usize, op: &Op) -> VResult {
        // Inserts capacity()-len() absent keys starting at id a: zero allocator calls allowed.
        let (room, len) = {
            let m = self.map(si);
            (m.capacity() - m.len(), m.len())
        };
        let room = room.min(4096);
        let mut next = op.a as u32 % K::UNIVERSE;
        let mut done = 0;
        let mut guard = 0u64;
        while done < room && guard < (K::UNIVERSE as u64).min(1 << 20) {
            guard += 1;
            let kid = next;
            next = (next + 1) % K::UNIVERSE;
            if self.slots[si].model.pos(kid).is_some() {
                continue;
            }
            if self.slots[si].model.e.len() as u64 >= K::UNIVERSE as u64 {
                break;
            }
            let k = K::make(kid);
            let v = V::make(kid);
            let (ks, vs) = (k.serial(), v.serial());
            let mut fc = self.fctx(si, op);
            fc.allowed.push((kid, kid));
            fc.arg_serials = vec![ks, vs];
            let m = self.slots[si].map.as_mut().unwrap();
            let out = self.ctx.call(op, || m.insert(k, v).is_some());
            let Some(was) = self.settle(out, si, fc)? else { return Ok(()) };
            if !self.ctx.functional() {
                done += 1;
                continue;
            }
            if was {
                vio!(self, "ret/Insert", "insert({kid}) of an absent key returned Some");
            }
            self.slots[si].model.e.push(ME { kid, ks, v: Self::nv(kid), vs });
            if self.ctx.last_alloc_calls != 0 {
                vio!(self, "cap/alloc-with-room", "insert number {} of {room} into spare capacity (len {len}) called the allocator", done + 1);
            }
            done += 1;
        }
        if done == room && room > 0 {
            sim().probe(Probe::InsertAtFullLoad);
        }
        Ok(())
    }

    // The remaining operations live in mapw_more.rs (iterators, entries, get_many).
}

/// Equality as hashbrown's `PartialEq for HashMap` defines it needs `V: PartialEq`; the simulator's
/// values compare by payload.
fn map_eq<K: KeyT, V: ValT>(a: &SMap<K, V>, b: &SMap<K, V>) -> bool {
    a == b
}

/// Source iterator handed to extend/from_iter, with an optionally lying size hint (F13).
pub struct SimSource<T> {
    pub items: std::vec::IntoIter<T>,
    pub hint: Option<usize>,
}
impl<T> Iterator for SimSource<T> {
    type Item = T;
    fn next(&mut self) -> Option<T> {
        tick(Class::Iter);
        self.items.next()
    }
    fn size_hint(&self) -> (usize, Option<usize>) {
        match self.hint {
            Some(h) => (h, None),
            None => self.items.size_hint(),
        }
    }
}

impl<K: KeyT, V: ValT> World for MapWorld<K, V> {
    fn exec(&mut self, idx: usize, op: &Op) -> Result<(), Violation> {
        self.exec_op(idx, op)
    }
    fn ctx(&mut self) -> &mut RunCtx {
        &mut self.ctx
    }
    fn view(&self) -> WorldView {
        WorldView {
            slots: self
                .slots
                .iter()
                .enumerate()
                .map(|(i, s)| {
                    let sh = self.shape(i);
                    let m = s.map.as_ref().unwrap();
                    SlotView { ids: s.model.ids(), len: m.len(), cap: m.capacity(), buckets: sh.buckets, growth_left: sh.growth_left, deleted: sh.deleted, singleton: sh.singleton, width: sh.width }
                })
                .collect(),
            universe: K::UNIVERSE,
        }
    }
    fn finish(&mut self) -> Result<(), Violation> {
        self.ctx.op_index = usize::MAX;
        self.ctx.op_kind = "Finish".into();
        let nop = Op::new(Kd::Nop);
        for i in 0..self.slots.len() {
            if self.ctx.functional() {
                self.sweep(i)?;
            }
            let m = self.slots[i].map.take();
            match self.ctx.call(&nop, move || drop(m)) {
                Out::Ok(()) => {}
                _ => return Err(self.ctx.violation("panic/Drop", "dropping the map panicked".into())),
            }
        }
        self.ctx.drain_callback_violations()?;
        let s = sim();
        let findings = crate::alloc::audit(&s);
        let live = s.live_serials as i64 + s.ms_live_total();
        let nblocks = s.blocks.len() as u64;
        let bytes = crate::alloc::live_bytes(&s);
        let leaked_live = self.ctx.leaked_serials.iter().filter(|&&x| s.serial_state[x as usize] == 1).count() as i64 + self.ctx.leaked_ms;
        drop(s);
        if let Some((c, d)) = findings.into_iter().next() {
            return Err(self.ctx.violation(&c, d));
        }
        if self.ctx.drop_fault_fired {
            return Ok(());
        }
        if live != leaked_live {
            return Err(self.ctx.violation("ledger/leak", format!("{live} elements still live after everything was dropped, {leaked_live} of them deliberately leaked")));
        }
        if nblocks != self.ctx.leaked_blocks || bytes != self.ctx.leaked_bytes {
            return Err(self.ctx.violation("alloc/leak", format!("{nblocks} blocks ({bytes} bytes) still allocated after everything was dropped, {} deliberately leaked", self.ctx.leaked_blocks)));
        }
        Ok(())
    }
}
