//! HashMap world, part 3 (C14): the generalised entry-chain model and the entry_ref,
//! raw_entry_mut (three builders), raw_entry and rustc_entry flavours.
//!
//! An `Entry` operation is `a` = key id, `b` = base value, `v` = [api, m1, m2, m3]; the real chain
//! and the model chain each produce an observation log which must be equal.

use crate::alloc::SimAlloc;
use crate::ctx::VResult;
use crate::elem::{sim_eq, KeyT, ValT};
use crate::mapw::{Ev, MapModel, MapWorld, ME, TOGGLE};
use crate::plan::SimBuildHasher;
use crate::scenario::Op;
use crate::state::{sim, tick, Class, Probe};
use hashbrown::hash_map::{EntryRef, OccupiedEntry, RawEntryMut, RawOccupiedEntryMut, RawVacantEntryMut, RustcEntry, RustcOccupiedEntry, RustcVacantEntry, VacantEntryRef};

/// Number of entry API flavours: 0 entry, 1 entry_ref, 2 raw from_key, 3 raw from_key_hashed_nocheck,
/// 4 raw from_hash, 5 rustc_entry, 6 raw_entry() (immutable, three builders by first method code).
pub const N_API: i64 = 7;

/// Placeholder serial for a key instance created inside hashbrown (`Into` conversion of entry_ref).
pub const FRESH: u32 = u32::MAX;

macro_rules! vio {
    ($self:ident, $class:expr, $($arg:tt)*) => {
        return Err($self.ctx.violation(&$class, format!($($arg)*)))
    };
}

pub fn method_ok(api: i64, st: u8, m: i64) -> bool {
    // st: 0 = E, 1 = O, 2 = V
    match (api, st) {
        (0, 0) => (1..=9).contains(&m) || m == 26,
        (0, 1) => (10..=18).contains(&m),
        (0, 2) => (20..=23).contains(&m),
        // EntryRef::key (5) / or_insert_with_key (4) need K: Borrow<Q>: only for key types with KeyT::BORROWS,
        // see method_ok_k
        (1, 0) => matches!(m, 1 | 2 | 3 | 4 | 5 | 6 | 9 | 26),
        // 17 / 18: replace_entry_with (Some / None) on the occupied entry; it hands back an owned-key `Entry`, on which
        // the chain may go on with insert (1) or or_insert (2) only
        (1, 1) => (10..=18).contains(&m),
        (1, 2) => matches!(m, 20 | 22 | 23),
        (2..=4, 0) => matches!(m, 1 | 2 | 3 | 6 | 7 | 8 | 9),
        (2..=4, 1) => (10..=18).contains(&m) || (30..=35).contains(&m),
        (2..=4, 2) => matches!(m, 22 | 24 | 25),
        (5, 0) => matches!(m, 1 | 2 | 3 | 5 | 6 | 9 | 26),
        (5, 1) => (10..=16).contains(&m),
        (5, 2) => (20..=23).contains(&m),
        _ => false,
    }
}

/// `method_ok` for a key type: without `Borrow<View>` an entry_ref chain has no key() / or_insert_with_key().
pub fn method_ok_k(api: i64, st: u8, m: i64, borrows: bool) -> bool {
    method_ok(api, st, m) && (borrows || !(api == 1 && st == 0 && (m == 4 || m == 5)))
}

/// Expected observation log of an entry chain, and its effect on the model.
/// `ks` = serial of the key handed to entry()/rustc_entry() (0 for by-reference flavours),
/// `k2` = serials of spare key instances handed to raw inserts / insert_key.
pub fn model_chain(model: &mut MapModel, api: i64, kid: u32, ks: u32, methods: &[i64], vals: &[(u32, u32)], k2: &[u32], tgl: u32, borrows: bool, vfresh: u32, ikid: u32) -> Vec<Ev> {
    let mut log = Vec::new();
    let mut st = 0u8; // 0 E, 1 O, 2 V, 3 done
    let mut eks = if api == 1 { FRESH } else { ks };
    let raw = (2..=4).contains(&api);
    // raw entries may insert a key other than the one that was looked up (`ikid != kid`): the chain then ends with
    // the insertion
    let foreign = ikid != kid;
    let mut vi = 0usize;
    let mut ki = 0usize;
    let mut next_val = || {
        let v = vals[vi.min(vals.len() - 1)];
        vi += 1;
        v
    };
    let mut next_key = || {
        let k = k2[ki.min(k2.len() - 1)];
        ki += 1;
        k
    };
    let mut switched = false;
    for &m in methods {
        if st == 3 {
            break;
        }
        if !method_ok_k(api, st, m, borrows) {
            break;
        }
        if switched && !matches!(m, 1 | 2) {
            break;
        }
        if api == 1 && st == 1 && matches!(m, 17 | 18) {
            switched = true;
        }
        let occ = model.pos(kid);
        match (st, m) {
            (0, 1) => {
                let v = next_val();
                let newk = if raw { next_key() } else { eks };
                match occ {
                    Some(i) => {
                        model.e[i].v = v.0;
                        model.e[i].vs = v.1;
                    }
                    None => model.e.push(ME { kid: if raw { ikid } else { kid }, ks: newk, v: v.0, vs: v.1 }),
                }
                st = if foreign || switched { 3 } else { 1 };
            }
            (0, 2) | (0, 3) | (0, 4) => {
                let v = next_val();
                let newk = if raw { next_key() } else { eks };
                let i = match occ {
                    Some(i) => i,
                    None => {
                        model.e.push(ME { kid: if raw { ikid } else { kid }, ks: newk, v: v.0, vs: v.1 });
                        model.e.len() - 1
                    }
                };
                if raw {
                    log.push(Ev::Key(model.e[i].kid, model.e[i].ks));
                }
                log.push(Ev::Val(model.e[i].v, model.e[i].vs));
                st = 3;
            }
            (0, 26) => {
                // or_default: the value is created inside hashbrown (payload 0, serial unknown to the model)
                match occ {
                    Some(i) => log.push(Ev::Val(model.e[i].v, model.e[i].vs)),
                    None => {
                        model.e.push(ME { kid, ks: eks, v: 0, vs: vfresh });
                        log.push(Ev::Val(0, vfresh));
                    }
                }
                st = 3;
            }
            (0, 5) => {
                let e = occ.map(|i| model.e[i]);
                if api == 1 {
                    // EntryRef::key() returns the borrowed form
                    log.push(Ev::Key(kid, 0));
                } else {
                    log.push(Ev::Key(kid, e.map_or(eks, |e| e.ks)));
                }
            }
            (0, 6) => {
                if let Some(i) = occ {
                    model.e[i].v ^= tgl;
                }
            }
            (0, 7) => {
                if let Some(i) = occ {
                    let v = next_val();
                    log.push(Ev::Old(model.e[i].v, model.e[i].vs));
                    model.e[i].v = v.0;
                    model.e[i].vs = v.1;
                }
            }
            (0, 8) => {
                if let Some(i) = occ {
                    log.push(Ev::Old(model.e[i].v, model.e[i].vs));
                    eks = model.e[i].ks;
                    model.e.swap_remove(i);
                }
            }
            (0, 9) => {
                log.push(Ev::Occ(occ.is_some()));
                st = if occ.is_some() { 1 } else { 2 };
            }
            (1, 10) | (1, 30) => {
                let e = model.e[occ.unwrap()];
                log.push(Ev::Key(e.kid, e.ks));
            }
            (1, 31) => {
                let e = model.e[occ.unwrap()];
                log.push(Ev::Key(e.kid, e.ks));
                st = 3;
            }
            (1, 11) => {
                let e = model.e[occ.unwrap()];
                log.push(Ev::Val(e.v, e.vs));
            }
            (1, 32) => {
                let e = model.e[occ.unwrap()];
                log.push(Ev::Key(e.kid, e.ks));
                log.push(Ev::Val(e.v, e.vs));
            }
            (1, 12) | (1, 13) => {
                let i = occ.unwrap();
                log.push(Ev::Val(model.e[i].v, model.e[i].vs));
                model.e[i].v ^= tgl;
                if m == 13 {
                    st = 3;
                }
            }
            (1, 33) | (1, 34) => {
                let i = occ.unwrap();
                log.push(Ev::Key(model.e[i].kid, model.e[i].ks));
                log.push(Ev::Val(model.e[i].v, model.e[i].vs));
                model.e[i].v ^= tgl;
                if m == 34 {
                    st = 3;
                }
            }
            (1, 14) => {
                let i = occ.unwrap();
                let v = next_val();
                log.push(Ev::Old(model.e[i].v, model.e[i].vs));
                model.e[i].v = v.0;
                model.e[i].vs = v.1;
            }
            (1, 35) => {
                let i = occ.unwrap();
                let nk = next_key();
                log.push(Ev::RetKey(kid, model.e[i].ks));
                model.e[i].ks = nk;
            }
            (1, 15) => {
                let e = model.e.swap_remove(occ.unwrap());
                log.push(Ev::Old(e.v, e.vs));
                st = 3;
            }
            (1, 16) => {
                let e = model.e.swap_remove(occ.unwrap());
                log.push(Ev::Removed(e.kid, e.ks, e.v, e.vs));
                st = 3;
            }
            (1, 17) => {
                let i = occ.unwrap();
                let v = next_val();
                log.push(Ev::Old(model.e[i].v, model.e[i].vs));
                model.e[i].v = v.0;
                model.e[i].vs = v.1;
                st = 0;
            }
            (1, 18) => {
                let e = model.e.swap_remove(occ.unwrap());
                log.push(Ev::Old(e.v, e.vs));
                eks = e.ks;
                st = 0;
            }
            (2, 20) => log.push(Ev::Key(kid, if api == 1 { 0 } else { eks })),
            (2, 21) => {
                log.push(Ev::RetKey(kid, eks));
                st = 3;
            }
            (2, 22) | (2, 24) | (2, 25) => {
                let v = next_val();
                let newk = if raw { next_key() } else { eks };
                model.e.push(ME { kid: if raw { ikid } else { kid }, ks: newk, v: v.0, vs: v.1 });
                if raw {
                    log.push(Ev::Key(ikid, newk));
                }
                log.push(Ev::Val(v.0, v.1));
                st = 3;
            }
            (2, 23) => {
                let v = next_val();
                model.e.push(ME { kid, ks: eks, v: v.0, vs: v.1 });
                st = 1;
            }
            _ => break,
        }
    }
    log
}

/// Log comparison in which a model key serial of FRESH (instance created inside hashbrown) matches any serial.
pub fn logs_match(expect: &[Ev], got: &[Ev]) -> bool {
    expect.len() == got.len()
        && expect.iter().zip(got.iter()).all(|(e, g)| match (e, g) {
            (Ev::Key(a, FRESH), Ev::Key(b, _)) => a == b,
            (Ev::Val(a, FRESH), Ev::Val(b, _)) => a == b,
            (Ev::RetKey(a, FRESH), Ev::RetKey(b, _)) => a == b,
            (Ev::Removed(a, FRESH, c, d), Ev::Removed(b, _, x, y)) => a == b && c == x && d == y,
            _ => e == g,
        })
}

type OccE<'a, K, V> = OccupiedEntry<'a, K, V, SimBuildHasher, SimAlloc>;

/// Occupied-entry methods shared by entry() and entry_ref() (codes 10..16). Returns false when done.
fn occupied_step<'a, K: KeyT, V: ValT>(o: OccE<'a, K, V>, m: i64, vals: &mut std::vec::IntoIter<V>, log: &mut Vec<Ev>, rk: &mut Vec<K>, rv: &mut Vec<V>) -> Option<OccE<'a, K, V>> {
    match m {
        10 => {
            log.push(Ev::Key(o.key().id(), o.key().serial()));
            Some(o)
        }
        11 => {
            log.push(Ev::Val(o.get().val(), o.get().serial()));
            Some(o)
        }
        12 => {
            let mut o = o;
            let r = o.get_mut();
            log.push(Ev::Val(r.val(), r.serial()));
            r.set(r.val() ^ TOGGLE);
            Some(o)
        }
        13 => {
            let r = o.into_mut();
            log.push(Ev::Val(r.val(), r.serial()));
            r.set(r.val() ^ TOGGLE);
            None
        }
        14 => {
            let mut o = o;
            let old = o.insert(vals.next().unwrap());
            log.push(Ev::Old(old.val(), old.serial()));
            rv.push(old);
            Some(o)
        }
        15 => {
            let old = o.remove();
            log.push(Ev::Old(old.val(), old.serial()));
            rv.push(old);
            None
        }
        _ => {
            let (k, v) = o.remove_entry();
            log.push(Ev::Removed(k.id(), k.serial(), v.val(), v.serial()));
            rk.push(k);
            rv.push(v);
            None
        }
    }
}

impl<K: KeyT, V: ValT> MapWorld<K, V> {
    pub(crate) fn op_entry_other(&mut self, si: usize, op: &Op, api: i64) -> VResult {
        let kid = op.a as u32 % K::UNIVERSE;
        let methods: Vec<i64> = op.v.iter().skip(1).copied().collect();
        let vals: Vec<V> = (0..4).map(|i| V::make((op.b as u32).wrapping_add(i) & !TOGGLE)).collect();
        let vtoks: Vec<(u32, u32)> = vals.iter().map(|v| (v.val(), v.serial())).collect();
        // c == 2 on a raw entry for an absent key: the inserted key is another (absent) key than the one looked up
        let foreign = (2..=4).contains(&api) && op.c == 2 && self.ctx.functional() && self.ctx.cfg.eq_mode == crate::state::EqMode::Lawful && self.slots[si].model.pos(kid).is_none() && K::UNIVERSE > 2;
        let fk = if foreign {
            let model = &self.slots[si].model;
            (1..K::UNIVERSE).map(|j| (kid.wrapping_add(j)) % K::UNIVERSE).find(|c| *c != kid && model.pos(*c).is_none()).unwrap_or(kid)
        } else {
            kid
        };
        let foreign = foreign && fk != kid;
        if foreign {
            sim().probe(Probe::RawInsertOtherKey);
        }
        let keys2: Vec<K> = if (2..=4).contains(&api) { (0..4).map(|_| K::make(fk)).collect() } else { Vec::new() };
        let k2: Vec<u32> = if keys2.is_empty() { vec![0] } else { keys2.iter().map(|k| k.serial()).collect() };
        let own_key = if api == 5 { Some(K::make(kid)) } else { None };
        let ks = own_key.as_ref().map_or(0, |k| k.serial());
        let view_h = K::view(kid);
        let view: &K::View = &*view_h;
        let hash = self.slots[si].plan.hash(K::plan_id(kid));
        // the explicit-hash inserts must be given the hash of the key that is inserted
        let hash_ins = self.slots[si].plan.hash(K::plan_id(fk));
        let plan = self.slots[si].plan.clone();
        let mut fc = self.fctx(si, op);
        fc.toggles = true;
        fc.multi = methods.len() > 1;
        fc.allowed = vtoks.iter().flat_map(|v| [(kid, v.0), (fk, v.0)]).collect();
        fc.arg_serials = std::iter::once(ks).chain(vtoks.iter().map(|v| v.1)).chain(k2.iter().copied()).collect();
        self.note_entry_state(si);
        let mut expect_model = self.slots[si].model.clone();
        let present = expect_model.pos(kid).map(|i| expect_model.e[i]);
        let expect = if api == 6 {
            match present {
                Some(e) => vec![Ev::Occ(true), Ev::Key(e.kid, e.ks), Ev::Val(e.v, e.vs)],
                None => vec![Ev::Occ(false)],
            }
        } else {
            model_chain(&mut expect_model, api, kid, ks, &methods, &vtoks, &k2, Self::TG, K::BORROWS, if V::HAS_SERIAL { FRESH } else { 0 }, fk)
        };
        let m = self.slots[si].map.as_mut().unwrap();
        let mut spare_v: Vec<V> = Vec::new();
        let mut spare_k: Vec<K> = Vec::new();
        let mut ret_k: Vec<K> = Vec::new();
        let mut ret_v: Vec<V> = Vec::new();
        let (spv, spk, rk, rv) = (&mut spare_v, &mut spare_k, &mut ret_k, &mut ret_v);
        let viewr = view;
        let out = self.ctx.call(op, move || {
            let mut vals = vals.into_iter();
            let mut keys2 = keys2.into_iter();
            let mut log: Vec<Ev> = Vec::new();
            match api {
                1 => {
                    enum St<'a, 'b, K: KeyT, V> {
                        E(EntryRef<'a, 'b, K, K::View, V, SimBuildHasher, SimAlloc>),
                        /// the owned-key entry that `replace_entry_with` hands back
                        E0(hashbrown::hash_map::Entry<'a, K, V, SimBuildHasher, SimAlloc>),
                        O(OccE<'a, K, V>),
                        V(VacantEntryRef<'a, 'b, K, K::View, V, SimBuildHasher, SimAlloc>),
                        Done,
                    }
                    let mut st = St::E(m.entry_ref(viewr));
                    for &mth in &methods {
                        let code = match &st {
                            St::E(_) | St::E0(_) => 0,
                            St::O(_) => 1,
                            St::V(_) => 2,
                            St::Done => 3,
                        };
                        if code == 3 || !method_ok_k(1, code, mth, K::BORROWS) {
                            break;
                        }
                        if matches!(st, St::E0(_)) && !matches!(mth, 1 | 2) {
                            break;
                        }
                        st = match (st, mth) {
                            (St::E(e), 1) => St::O(e.insert(vals.next().unwrap())),
                            (St::E(e), 2) => {
                                let r = e.or_insert(vals.next().unwrap());
                                log.push(Ev::Val(r.val(), r.serial()));
                                St::Done
                            }
                            (St::E(e), 3) => {
                                let mut slot = Some(vals.next().unwrap());
                                let r = e.or_insert_with(|| {
                                    tick(Class::Pred);
                                    slot.take().unwrap()
                                });
                                log.push(Ev::Val(r.val(), r.serial()));
                                if let Some(v) = slot {
                                    spv.push(v);
                                }
                                St::Done
                            }
                            (St::E(e), 4) => {
                                let mut slot = Some(vals.next().unwrap());
                                let r = K::eref_or_insert_with_key(e, &mut |q| {
                                    tick(Class::Pred);
                                    if q != kid {
                                        sim().violations.push(("entry/Entry".into(), format!("or_insert_with_key handed key {q} to the constructor, the entry is for {kid}")));
                                    }
                                    slot.take().unwrap()
                                });
                                log.push(Ev::Val(r.val(), r.serial()));
                                if let Some(v) = slot {
                                    spv.push(v);
                                }
                                St::Done
                            }
                            (St::E(e), 5) => {
                                log.push(Ev::Key(K::eref_key(&e), 0));
                                St::E(e)
                            }
                            (St::E(e), 26) => {
                                sim().probe(Probe::EntryOrDefault);
                                let r = e.or_default();
                                log.push(Ev::Val(r.val(), r.serial()));
                                St::Done
                            }
                            (St::E(e), 6) => St::E(e.and_modify(|v| {
                                tick(Class::Pred);
                                v.set(v.val() ^ TOGGLE)
                            })),
                            (St::E(e), _) => match e {
                                EntryRef::Occupied(o) => {
                                    log.push(Ev::Occ(true));
                                    St::O(o)
                                }
                                EntryRef::Vacant(v) => {
                                    log.push(Ev::Occ(false));
                                    St::V(v)
                                }
                            },
                            (St::E0(e), 1) => {
                                drop(e.insert(vals.next().unwrap()));
                                St::Done
                            }
                            (St::E0(e), _) => {
                                let r = e.or_insert(vals.next().unwrap());
                                log.push(Ev::Val(r.val(), r.serial()));
                                St::Done
                            }
                            (St::O(o), 17) => {
                                let mut nv = vals.next();
                                let lg = &mut log;
                                let rvv = &mut *rv;
                                St::E0(o.replace_entry_with(|_k, old| {
                                    tick(Class::Pred);
                                    lg.push(Ev::Old(old.val(), old.serial()));
                                    rvv.push(old);
                                    nv.take()
                                }))
                            }
                            (St::O(o), 18) => {
                                let lg = &mut log;
                                let rvv = &mut *rv;
                                St::E0(o.replace_entry_with(|_k, old| {
                                    tick(Class::Pred);
                                    lg.push(Ev::Old(old.val(), old.serial()));
                                    rvv.push(old);
                                    None
                                }))
                            }
                            (St::O(o), mm) => match occupied_step(o, mm, &mut vals, &mut log, rk, rv) {
                                Some(o) => St::O(o),
                                None => St::Done,
                            },
                            (St::V(v), 20) => {
                                log.push(Ev::Key(K::view_id(v.key()), 0));
                                St::V(v)
                            }
                            (St::V(v), 22) => {
                                let r = v.insert(vals.next().unwrap());
                                log.push(Ev::Val(r.val(), r.serial()));
                                St::Done
                            }
                            (St::V(v), _) => St::O(v.insert_entry(vals.next().unwrap())),
                            (St::Done, _) => St::Done,
                        };
                    }
                    drop(st);
                }
                2 | 3 | 4 => {
                    enum St<'a, K, V> {
                        E(RawEntryMut<'a, K, V, SimBuildHasher, SimAlloc>),
                        O(RawOccupiedEntryMut<'a, K, V, SimBuildHasher, SimAlloc>),
                        V(RawVacantEntryMut<'a, K, V, SimBuildHasher, SimAlloc>),
                        Done,
                    }
                    let b = m.raw_entry_mut();
                    let mut st = St::E(match api {
                        2 => b.from_key(viewr),
                        3 => b.from_key_hashed_nocheck(hash, viewr),
                        _ => b.from_hash(hash, |k| sim_eq(kid, k.id())),
                    });
                    for &mth in &methods {
                        let code = match &st {
                            St::E(_) => 0,
                            St::O(_) => 1,
                            St::V(_) => 2,
                            St::Done => 3,
                        };
                        if code == 3 || !method_ok(api, code, mth) {
                            break;
                        }
                        st = match (st, mth) {
                            (St::E(e), 1) => {
                                let o = e.insert(keys2.next().unwrap(), vals.next().unwrap());
                                if foreign {
                                    drop(o);
                                    St::Done
                                } else {
                                    St::O(o)
                                }
                            }
                            (St::E(e), 2) => {
                                let (k, v) = e.or_insert(keys2.next().unwrap(), vals.next().unwrap());
                                log.push(Ev::Key(k.id(), k.serial()));
                                log.push(Ev::Val(v.val(), v.serial()));
                                St::Done
                            }
                            (St::E(e), 3) => {
                                let mut slot = Some((keys2.next().unwrap(), vals.next().unwrap()));
                                let (k, v) = e.or_insert_with(|| {
                                    tick(Class::Pred);
                                    slot.take().unwrap()
                                });
                                log.push(Ev::Key(k.id(), k.serial()));
                                log.push(Ev::Val(v.val(), v.serial()));
                                if let Some((k, v)) = slot {
                                    spk.push(k);
                                    spv.push(v);
                                }
                                St::Done
                            }
                            (St::E(e), 6) => St::E(e.and_modify(|_k, v| {
                                tick(Class::Pred);
                                v.set(v.val() ^ TOGGLE)
                            })),
                            (St::E(e), 7) => {
                                let occupied = matches!(e, RawEntryMut::Occupied(_));
                                let mut nv = if occupied { vals.next() } else { None };
                                let lg = &mut log;
                                let rvv = &mut *rv;
                                St::E(e.and_replace_entry_with(|_k, old| {
                                    tick(Class::Pred);
                                    lg.push(Ev::Old(old.val(), old.serial()));
                                    rvv.push(old);
                                    nv.take()
                                }))
                            }
                            (St::E(e), 8) => {
                                let lg = &mut log;
                                let rvv = &mut *rv;
                                St::E(e.and_replace_entry_with(|_k, old| {
                                    tick(Class::Pred);
                                    lg.push(Ev::Old(old.val(), old.serial()));
                                    rvv.push(old);
                                    None
                                }))
                            }
                            (St::E(e), _) => match e {
                                RawEntryMut::Occupied(o) => {
                                    log.push(Ev::Occ(true));
                                    St::O(o)
                                }
                                RawEntryMut::Vacant(v) => {
                                    log.push(Ev::Occ(false));
                                    St::V(v)
                                }
                            },
                            (St::O(o), 10) => {
                                log.push(Ev::Key(o.key().id(), o.key().serial()));
                                St::O(o)
                            }
                            (St::O(mut o), 30) => {
                                let k = o.key_mut();
                                log.push(Ev::Key(k.id(), k.serial()));
                                St::O(o)
                            }
                            (St::O(o), 31) => {
                                let k = o.into_key();
                                log.push(Ev::Key(k.id(), k.serial()));
                                St::Done
                            }
                            (St::O(o), 11) => {
                                log.push(Ev::Val(o.get().val(), o.get().serial()));
                                St::O(o)
                            }
                            (St::O(o), 32) => {
                                let (k, v) = o.get_key_value();
                                log.push(Ev::Key(k.id(), k.serial()));
                                log.push(Ev::Val(v.val(), v.serial()));
                                St::O(o)
                            }
                            (St::O(mut o), 12) => {
                                let r = o.get_mut();
                                log.push(Ev::Val(r.val(), r.serial()));
                                r.set(r.val() ^ TOGGLE);
                                St::O(o)
                            }
                            (St::O(o), 13) => {
                                let r = o.into_mut();
                                log.push(Ev::Val(r.val(), r.serial()));
                                r.set(r.val() ^ TOGGLE);
                                St::Done
                            }
                            (St::O(mut o), 33) => {
                                let (k, v) = o.get_key_value_mut();
                                log.push(Ev::Key(k.id(), k.serial()));
                                log.push(Ev::Val(v.val(), v.serial()));
                                v.set(v.val() ^ TOGGLE);
                                St::O(o)
                            }
                            (St::O(o), 34) => {
                                let (k, v) = o.into_key_value();
                                log.push(Ev::Key(k.id(), k.serial()));
                                log.push(Ev::Val(v.val(), v.serial()));
                                v.set(v.val() ^ TOGGLE);
                                St::Done
                            }
                            (St::O(mut o), 14) => {
                                let old = o.insert(vals.next().unwrap());
                                log.push(Ev::Old(old.val(), old.serial()));
                                rv.push(old);
                                St::O(o)
                            }
                            (St::O(mut o), 35) => {
                                let old = o.insert_key(keys2.next().unwrap());
                                log.push(Ev::RetKey(old.id(), old.serial()));
                                rk.push(old);
                                St::O(o)
                            }
                            (St::O(o), 15) => {
                                let old = o.remove();
                                log.push(Ev::Old(old.val(), old.serial()));
                                rv.push(old);
                                St::Done
                            }
                            (St::O(o), 16) => {
                                let (k, v) = o.remove_entry();
                                log.push(Ev::Removed(k.id(), k.serial(), v.val(), v.serial()));
                                rk.push(k);
                                rv.push(v);
                                St::Done
                            }
                            (St::O(o), 17) => {
                                let mut nv = vals.next();
                                let lg = &mut log;
                                let rvv = &mut *rv;
                                St::E(o.replace_entry_with(|_k, old| {
                                    tick(Class::Pred);
                                    lg.push(Ev::Old(old.val(), old.serial()));
                                    rvv.push(old);
                                    nv.take()
                                }))
                            }
                            (St::O(o), _) => {
                                let lg = &mut log;
                                let rvv = &mut *rv;
                                St::E(o.replace_entry_with(|_k, old| {
                                    tick(Class::Pred);
                                    lg.push(Ev::Old(old.val(), old.serial()));
                                    rvv.push(old);
                                    None
                                }))
                            }
                            (St::V(v), mm) => {
                                let (key, val) = (keys2.next().unwrap(), vals.next().unwrap());
                                let (k, v) = match mm {
                                    22 => v.insert(key, val),
                                    24 => v.insert_hashed_nocheck(hash_ins, key, val),
                                    _ => v.insert_with_hasher(hash_ins, key, val, |k| {
                                        tick(Class::Hash);
                                        plan.hash(K::plan_id(k.id()))
                                    }),
                                };
                                log.push(Ev::Key(k.id(), k.serial()));
                                log.push(Ev::Val(v.val(), v.serial()));
                                St::Done
                            }
                            (St::Done, _) => St::Done,
                        };
                    }
                    drop(st);
                }
                5 => {
                    enum St<'a, K, V> {
                        E(RustcEntry<'a, K, V, SimAlloc>),
                        O(RustcOccupiedEntry<'a, K, V, SimAlloc>),
                        V(RustcVacantEntry<'a, K, V, SimAlloc>),
                        Done,
                    }
                    let mut st = St::E(m.rustc_entry(own_key.unwrap()));
                    for &mth in &methods {
                        let code = match &st {
                            St::E(_) => 0,
                            St::O(_) => 1,
                            St::V(_) => 2,
                            St::Done => 3,
                        };
                        if code == 3 || !method_ok(5, code, mth) {
                            break;
                        }
                        st = match (st, mth) {
                            (St::E(e), 1) => St::O(e.insert(vals.next().unwrap())),
                            (St::E(e), 2) => {
                                let r = e.or_insert(vals.next().unwrap());
                                log.push(Ev::Val(r.val(), r.serial()));
                                St::Done
                            }
                            (St::E(e), 3) => {
                                let mut slot = Some(vals.next().unwrap());
                                let r = e.or_insert_with(|| {
                                    tick(Class::Pred);
                                    slot.take().unwrap()
                                });
                                log.push(Ev::Val(r.val(), r.serial()));
                                if let Some(v) = slot {
                                    spv.push(v);
                                }
                                St::Done
                            }
                            (St::E(e), 5) => {
                                log.push(Ev::Key(e.key().id(), e.key().serial()));
                                St::E(e)
                            }
                            (St::E(e), 26) => {
                                sim().probe(Probe::EntryOrDefault);
                                let r = e.or_default();
                                log.push(Ev::Val(r.val(), r.serial()));
                                St::Done
                            }
                            (St::E(e), 6) => St::E(e.and_modify(|v| {
                                tick(Class::Pred);
                                v.set(v.val() ^ TOGGLE)
                            })),
                            (St::E(e), _) => match e {
                                RustcEntry::Occupied(o) => {
                                    log.push(Ev::Occ(true));
                                    St::O(o)
                                }
                                RustcEntry::Vacant(v) => {
                                    log.push(Ev::Occ(false));
                                    St::V(v)
                                }
                            },
                            (St::O(o), 10) => {
                                log.push(Ev::Key(o.key().id(), o.key().serial()));
                                St::O(o)
                            }
                            (St::O(o), 11) => {
                                log.push(Ev::Val(o.get().val(), o.get().serial()));
                                St::O(o)
                            }
                            (St::O(mut o), 12) => {
                                let r = o.get_mut();
                                log.push(Ev::Val(r.val(), r.serial()));
                                r.set(r.val() ^ TOGGLE);
                                St::O(o)
                            }
                            (St::O(o), 13) => {
                                let r = o.into_mut();
                                log.push(Ev::Val(r.val(), r.serial()));
                                r.set(r.val() ^ TOGGLE);
                                St::Done
                            }
                            (St::O(mut o), 14) => {
                                let old = o.insert(vals.next().unwrap());
                                log.push(Ev::Old(old.val(), old.serial()));
                                rv.push(old);
                                St::O(o)
                            }
                            (St::O(o), 15) => {
                                let old = o.remove();
                                log.push(Ev::Old(old.val(), old.serial()));
                                rv.push(old);
                                St::Done
                            }
                            (St::O(o), _) => {
                                let (k, v) = o.remove_entry();
                                log.push(Ev::Removed(k.id(), k.serial(), v.val(), v.serial()));
                                rk.push(k);
                                rv.push(v);
                                St::Done
                            }
                            (St::V(v), 20) => {
                                log.push(Ev::Key(v.key().id(), v.key().serial()));
                                St::V(v)
                            }
                            (St::V(v), 21) => {
                                let k = v.into_key();
                                log.push(Ev::RetKey(k.id(), k.serial()));
                                rk.push(k);
                                St::Done
                            }
                            (St::V(v), 22) => {
                                let r = v.insert(vals.next().unwrap());
                                log.push(Ev::Val(r.val(), r.serial()));
                                St::Done
                            }
                            (St::V(v), _) => St::O(v.insert_entry(vals.next().unwrap())),
                            (St::Done, _) => St::Done,
                        };
                    }
                    drop(st);
                }
                _ => {
                    // raw_entry(): immutable lookups through the three builders
                    let b = m.raw_entry();
                    let r = match methods.first().copied().unwrap_or(0).rem_euclid(3) {
                        0 => b.from_key(viewr),
                        1 => b.from_key_hashed_nocheck(hash, viewr),
                        _ => b.from_hash(hash, |k| sim_eq(kid, k.id())),
                    };
                    match r {
                        Some((k, v)) => {
                            log.push(Ev::Occ(true));
                            log.push(Ev::Key(k.id(), k.serial()));
                            log.push(Ev::Val(v.val(), v.serial()));
                        }
                        None => log.push(Ev::Occ(false)),
                    }
                }
            }
            spv.extend(vals);
            spk.extend(keys2);
            log
        });
        drop(spare_v);
        drop(spare_k);
        drop(ret_k);
        drop(ret_v);
        drop(view);
        let Some(log) = self.settle(out, si, fc)? else { return Ok(()) };
        if !self.ctx.functional() {
            let act = self.actual(si);
            self.slots[si].model.e = act.into_iter().map(|x| x.0).collect();
            return Ok(());
        }
        if !logs_match(&expect, &log) {
            vio!(self, "entry/Entry", "entry flavour {api} on key {kid}, chain {:?} observed {:?}, the model expects {:?}", &op.v[1..], log, expect);
        }
        // key instances created inside hashbrown by the Into conversion get their serial from the table
        if expect_model.e.iter().any(|e| e.ks == FRESH) {
            sim().probe(Probe::VacantDropped);
            let act = self.actual(si);
            for e in expect_model.e.iter_mut().filter(|e| e.ks == FRESH) {
                if let Some((a, _)) = act.iter().find(|(a, _)| a.kid == e.kid) {
                    e.ks = if K::HAS_SERIAL { a.ks } else { 0 };
                }
            }
        }
        if expect_model.e.iter().any(|e| e.vs == FRESH) {
            let act = self.actual(si);
            for e in expect_model.e.iter_mut().filter(|e| e.vs == FRESH) {
                if let Some((a, _)) = act.iter().find(|(a, _)| a.kid == e.kid) {
                    e.vs = a.vs;
                }
            }
        }
        self.slots[si].model = expect_model;
        Ok(())
    }
}
