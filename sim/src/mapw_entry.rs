//! HashMap world, part 3: entry_ref, raw_entry(_mut) and rustc_entry chains (C14).

use crate::ctx::VResult;
use crate::elem::{KeyT, ValT};
use crate::mapw::MapWorld;
use crate::scenario::Op;

/// Number of entry API flavours the `Entry` operation can address.
pub const N_API: i64 = 1;

impl<K: KeyT, V: ValT> MapWorld<K, V> {
    pub(crate) fn op_entry_other(&mut self, _si: usize, _op: &Op, _api: i64) -> VResult {
        Ok(())
    }
}
