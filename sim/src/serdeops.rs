//! Seam S8 (C20): a simulator-owned serde data source — claimed length, repeated keys, an error
//! at element k — and a faulty byte reader for the serde_json path.

use crate::state::{tick, Class};
use serde::de::value::U32Deserializer;
use serde::de::{DeserializeSeed, Deserializer, Error as DeError, IntoDeserializer, MapAccess, SeqAccess, Visitor};
use std::fmt;

#[derive(Debug)]
pub struct SimError(pub String);
impl fmt::Display for SimError {
    fn fmt(&self, f: &mut fmt::Formatter<'_>) -> fmt::Result {
        write!(f, "{}", self.0)
    }
}
impl std::error::Error for SimError {}
impl DeError for SimError {
    fn custom<T: fmt::Display>(msg: T) -> Self {
        SimError(msg.to_string())
    }
}

/// Deserializer of one value: a u32, or a unit when the value type asks for one (zero-sized values).
struct ValDe(u32);
impl<'de> Deserializer<'de> for ValDe {
    type Error = SimError;
    fn deserialize_any<V: Visitor<'de>>(self, visitor: V) -> Result<V::Value, SimError> {
        visitor.visit_u32(self.0)
    }
    fn deserialize_unit<V: Visitor<'de>>(self, visitor: V) -> Result<V::Value, SimError> {
        visitor.visit_unit()
    }
    serde::forward_to_deserialize_any! {
        bool i8 i16 i32 i64 i128 u8 u16 u32 u64 u128 f32 f64 char str string bytes byte_buf option
        unit_struct newtype_struct seq tuple tuple_struct map struct enum identifier ignored_any
    }
}

/// A stream of (key id, value) pairs (maps) or ids (sequences).
pub struct SimDeserializer {
    pub items: Vec<(u32, u32)>,
    /// claimed length: None = no hint
    pub hint: Option<usize>,
    /// produce an error instead of element number `err_at`
    pub err_at: Option<usize>,
}

struct Access {
    items: std::vec::IntoIter<(u32, u32)>,
    hint: Option<usize>,
    err_at: Option<usize>,
    pos: usize,
    pending_val: Option<u32>,
}

impl<'de> MapAccess<'de> for Access {
    type Error = SimError;
    fn next_key_seed<K: DeserializeSeed<'de>>(&mut self, seed: K) -> Result<Option<K::Value>, SimError> {
        tick(Class::Iter);
        if self.err_at == Some(self.pos) {
            return Err(SimError(format!("injected stream error at element {}", self.pos)));
        }
        match self.items.next() {
            Some((k, v)) => {
                self.pos += 1;
                self.pending_val = Some(v);
                let d: U32Deserializer<SimError> = k.into_deserializer();
                seed.deserialize(d).map(Some)
            }
            None => Ok(None),
        }
    }
    fn next_value_seed<V: DeserializeSeed<'de>>(&mut self, seed: V) -> Result<V::Value, SimError> {
        let v = self.pending_val.take().ok_or_else(|| SimError("value without key".into()))?;
        seed.deserialize(ValDe(v))
    }
    fn size_hint(&self) -> Option<usize> {
        self.hint
    }
}

impl<'de> SeqAccess<'de> for Access {
    type Error = SimError;
    fn next_element_seed<T: DeserializeSeed<'de>>(&mut self, seed: T) -> Result<Option<T::Value>, SimError> {
        tick(Class::Iter);
        if self.err_at == Some(self.pos) {
            return Err(SimError(format!("injected stream error at element {}", self.pos)));
        }
        match self.items.next() {
            Some((k, _)) => {
                self.pos += 1;
                let d: U32Deserializer<SimError> = k.into_deserializer();
                seed.deserialize(d).map(Some)
            }
            None => Ok(None),
        }
    }
    fn size_hint(&self) -> Option<usize> {
        self.hint
    }
}

impl SimDeserializer {
    fn access(self) -> Access {
        Access { items: self.items.into_iter(), hint: self.hint, err_at: self.err_at, pos: 0, pending_val: None }
    }
}

impl<'de> Deserializer<'de> for SimDeserializer {
    type Error = SimError;
    fn deserialize_any<V: Visitor<'de>>(self, visitor: V) -> Result<V::Value, SimError> {
        visitor.visit_map(self.access())
    }
    fn deserialize_map<V: Visitor<'de>>(self, visitor: V) -> Result<V::Value, SimError> {
        visitor.visit_map(self.access())
    }
    fn deserialize_seq<V: Visitor<'de>>(self, visitor: V) -> Result<V::Value, SimError> {
        visitor.visit_seq(self.access())
    }
    serde::forward_to_deserialize_any! {
        bool i8 i16 i32 i64 i128 u8 u16 u32 u64 u128 f32 f64 char str string bytes byte_buf option unit
        unit_struct newtype_struct tuple tuple_struct struct enum identifier ignored_any
    }
}

/// Byte reader with short reads, an I/O error or a premature EOF at a chosen byte.
pub struct FaultyReader<'a> {
    pub data: &'a [u8],
    pub pos: usize,
    /// 0 none, 1 error at `at`, 2 EOF at `at`
    pub mode: u8,
    pub at: usize,
    pub chunk: usize,
}
impl std::io::Read for FaultyReader<'_> {
    fn read(&mut self, buf: &mut [u8]) -> std::io::Result<usize> {
        let limit = if self.mode != 0 { self.at.min(self.data.len()) } else { self.data.len() };
        if self.pos >= limit {
            return if self.mode == 1 { Err(std::io::Error::new(std::io::ErrorKind::Other, "injected read error")) } else { Ok(0) };
        }
        let n = buf.len().min(self.chunk.max(1)).min(limit - self.pos);
        buf[..n].copy_from_slice(&self.data[self.pos..self.pos + n]);
        self.pos += n;
        Ok(n)
    }
}
