//! HashSet world (C07 and the set parts of other properties): set semantics and set algebra
//! against mathematical sets of ids, with element instances tracked by serial.

use crate::alloc::SimAlloc;
use crate::ctx::{Out, RunCtx, VResult};
use crate::dump::{self, Shape};
use crate::elem::KeyT;
use crate::iterdrv::{drive, judge, Item, IterPlan};
use crate::mapw::SimSource;
use crate::plan::{Plan, SimBuildHasher};
use crate::scenario::{Config, Kd, Op, Violation};
use crate::state::{sim, tick, Class, Probe};
use crate::world::{SlotView, World, WorldView};
use hashbrown::hash_set::Entry;
use hashbrown::HashSet;
use std::collections::BTreeSet;

pub type SSet<K> = HashSet<K, SimBuildHasher, SimAlloc>;

/// (id, serial)
pub type SE = (u32, u32);

pub struct SetSlot<K: KeyT> {
    pub set: Option<SSet<K>>,
    pub model: Vec<SE>,
    pub plan: Plan,
}

#[derive(Clone, Debug, Default)]
pub struct SFault {
    pub before: Vec<SE>,
    pub allowed_ids: Vec<u32>,
    pub arg_serials: Vec<u32>,
    pub fresh_ok: bool,
    pub multi: bool,
    pub blocks_before: usize,
}

pub struct SetWorld<K: KeyT> {
    pub slots: Vec<SetSlot<K>>,
    pub ctx: RunCtx,
}

macro_rules! vio {
    ($self:ident, $class:expr, $($arg:tt)*) => {
        return Err($self.ctx.violation(&$class, format!($($arg)*)))
    };
}

fn new_set<K: KeyT>(plan: &Plan, si: usize) -> SSet<K> {
    HashSet::with_hasher_in(SimBuildHasher::new(plan.clone()), SimAlloc::of_slot(si))
}
fn it<K: KeyT>(k: &K) -> Item {
    (k.id(), k.serial(), 0, 0)
}
fn ids_of(m: &[SE]) -> BTreeSet<u32> {
    m.iter().map(|e| e.0).collect()
}

/// Log of a set-algebra iterator driven step by step: yielded ids and the size_hint before each step.
#[derive(Default, Debug)]
struct AlgLog {
    items: Vec<Item>,
    hints: Vec<(usize, Option<usize>)>,
    cloned: Option<Vec<Item>>,
    folded: bool,
}

fn drive_alg<I: Iterator<Item = Item> + Clone>(mut iter: I, plan: &IterPlan, cap: usize) -> AlgLog {
    let mut log = AlgLog::default();
    let mut n = 0;
    while n < plan.n_next {
        log.hints.push(iter.size_hint());
        match iter.next() {
            Some(x) => log.items.push(x),
            None => break,
        }
        n += 1;
    }
    if plan.clone_mid {
        let c = iter.clone();
        log.cloned = Some(c.take(cap + 8).collect());
    }
    log.hints.push(iter.size_hint());
    if plan.finish % 2 == 1 {
        log.folded = true;
        let rest = iter.fold(Vec::new(), |mut acc, x| {
            acc.push(x);
            acc
        });
        log.items.extend(rest);
    } else {
        let mut k = 0;
        loop {
            match iter.next() {
                Some(x) => log.items.push(x),
                None => break,
            }
            log.hints.push(iter.size_hint());
            k += 1;
            if k > cap + 8 {
                break;
            }
        }
        for _ in 0..plan.extra {
            if iter.next().is_some() {
                log.items.push((u32::MAX, u32::MAX, 0, 0));
            }
        }
    }
    log
}

impl<K: KeyT> SetWorld<K> {
    pub fn new(cfg: Config) -> Self {
        let slots: Vec<SetSlot<K>> = cfg.plans.iter().enumerate().map(|(i, p)| SetSlot { set: Some(new_set::<K>(p, i)), model: Vec::new(), plan: p.clone() }).collect();
        SetWorld { slots, ctx: RunCtx::new(cfg) }
    }
    pub(crate) fn set(&self, si: usize) -> &SSet<K> {
        self.slots[si].set.as_ref().unwrap()
    }
    pub fn shape(&self, si: usize) -> Shape {
        dump::shape(&hashbrown::verif::dump_set(self.set(si)))
    }
    pub(crate) fn actual(&self, si: usize) -> Vec<(SE, bool)> {
        hashbrown::verif::full_buckets_set(self.set(si)).into_iter().map(|(_, (k, _))| ((k.id(), k.serial()), k.intact())).collect()
    }
    fn fctx(&self, si: usize, op: &Op) -> SFault {
        if op.f.is_some() || self.ctx.cfg.callback_cap != 0 {
            SFault { before: self.slots[si].model.clone(), blocks_before: sim().blocks.len(), ..Default::default() }
        } else {
            SFault::default()
        }
    }
    fn has(&self, si: usize, id: u32) -> Option<SE> {
        self.slots[si].model.iter().find(|e| e.0 == id).copied()
    }

    fn settle<R>(&mut self, out: Out<R>, si: usize, fc: SFault) -> VResult<Option<R>> {
        match out {
            Out::Ok(r) => Ok(Some(r)),
            Out::Fault(c) => {
                self.after_fault(si, fc, c)?;
                Ok(None)
            }
            Out::Ceiling(n) => {
                self.ctx.drain_callback_violations()?;
                vio!(self, "alloc/over-reservation", "request of {n} bytes")
            }
            Out::Diverge(n) => vio!(self, format!("diverge/{}", self.ctx.op_kind), "more than {n} callbacks in one operation"),
            Out::Panic(msg) => {
                self.ctx.drain_callback_violations()?;
                if msg.contains("Went past end of probe sequence") {
                    // the debug assertion that stands in for a probe loop that would never end
                    vio!(self, format!("hang/probe-{}", self.ctx.op_kind), "a probe sequence visited every group without finding an EMPTY byte (non-termination in a release build): {msg}")
                }
                vio!(self, format!("panic/{}", self.ctx.op_kind), "unexpected panic: {msg}")
            }
        }
    }

    fn after_fault(&mut self, si: usize, fc: SFault, class: Class) -> VResult {
        self.ctx.drain_callback_violations()?;
        let d = hashbrown::verif::dump_set(self.set(si));
        if let Some((c, det)) = dump::check(&d).into_iter().next() {
            vio!(self, c, "after a {} panic: {det}", class.name());
        }
        let grew = self.ctx.last_alloc_calls > 0;
        {
            let mut s = sim();
            match class {
                Class::Hash if grew => s.probe(Probe::PanicInResize),
                Class::Hash if self.ctx.last_counts[Class::Hash as usize] > 1 => s.probe(Probe::PanicInRehashInPlace),
                Class::Hash => s.probe(Probe::PanicInHashLookup),
                Class::Eq => s.probe(Probe::PanicInEq),
                Class::Clone => s.probe(Probe::PanicInClone),
                Class::Drop => s.probe(Probe::PanicInDrop),
                Class::Pred => s.probe(Probe::PanicInPred),
                Class::Iter => s.probe(Probe::PanicInIntoIterSrc),
                _ => {}
            }
        }
        let act = self.actual(si);
        if act.iter().any(|x| !x.1) {
            vio!(self, "postpanic/dead-element", "after a {} panic the set holds an element that is not live", class.name());
        }
        let len = self.set(si).len();
        if len != act.len() {
            vio!(self, "postpanic/len", "after a {} panic len()={} but {} occupied slots", class.name(), len, act.len());
        }
        let nop = Op::new(Kd::Nop);
        let sref = self.slots[si].set.as_ref().unwrap();
        match self.ctx.call(&nop, || sref.iter().count()) {
            Out::Ok(n) if n == act.len() => {}
            _ => vio!(self, "postpanic/len", "after a {} panic iter() disagrees with len()={}", class.name(), act.len()),
        }
        let mut seen = BTreeSet::new();
        for (e, _) in &act {
            if !seen.insert(e.0) {
                vio!(self, "postpanic/duplicate-key", "id {} stored twice after a {} panic", e.0, class.name());
            }
            let old = fc.before.iter().find(|b| b.0 == e.0);
            let ok = match old {
                Some(o) => !K::HAS_SERIAL || o.1 == e.1 || fc.fresh_ok || fc.allowed_ids.contains(&e.0),
                None => fc.allowed_ids.contains(&e.0),
            };
            if !ok {
                vio!(self, "postpanic/alien-element", "after a {} panic the set holds {:?} which is neither an old element nor an argument", class.name(), e);
            }
        }
        if self.ctx.functional() {
            for (e, _) in &act {
                let probe_h = K::view(e.0);
                let probe: &K::View = &*probe_h;
                let sref = self.slots[si].set.as_ref().unwrap();
                match self.ctx.call(&nop, || sref.get(probe).map(|k| k.serial())) {
                    Out::Ok(Some(s)) if s == e.1 => {}
                    _ => vio!(self, "postpanic/unfindable", "after a {} panic id {} is stored but get() misses it", class.name(), e.0),
                }
            }
        }
        if K::HAS_SERIAL && class != Class::Drop && !self.ctx.drop_fault_fired {
            let s = sim();
            for b in &fc.before {
                if !act.iter().any(|(e, _)| e.1 == b.1) && s.serial_state[b.1 as usize] == 1 {
                    drop(s);
                    vio!(self, "postpanic/leaked-element", "element {:?} left the set during a {} panic but was never dropped", b, class.name());
                }
            }
            for &a in &fc.arg_serials {
                if a != 0 && s.serial_state[a as usize] == 1 && !act.iter().any(|(e, _)| e.1 == a) {
                    drop(s);
                    vio!(self, "postpanic/leaked-element", "argument serial {a} was neither stored nor dropped after a {} panic", class.name());
                }
            }
        }
        if class == Class::Hash && grew && !fc.multi {
            let mut a: Vec<SE> = act.iter().map(|x| x.0).collect();
            a.sort();
            let mut b = fc.before.clone();
            b.sort();
            if a != b {
                vio!(self, "postpanic/grow-changed-contents", "a hasher panic while growing into a new allocation changed the contents");
            }
            if sim().blocks.len() != fc.blocks_before {
                vio!(self, "postpanic/grow-leaked-block", "live blocks before {} after {}", fc.blocks_before, sim().blocks.len());
            }
        }
        self.slots[si].model = act.into_iter().map(|x| x.0).collect();
        self.ctx.note_state(&d);
        Ok(())
    }

    pub fn check_slot(&mut self, si: usize) -> VResult {
        self.ctx.drain_callback_violations()?;
        let d = hashbrown::verif::dump_set(self.set(si));
        if let Some((c, det)) = dump::check(&d).into_iter().next() {
            vio!(self, c, "{det}");
        }
        self.ctx.note_state(&d);
        self.ctx.group_monitor(&d)?;
        if let Some((c, det)) = dump::check_budget(&d) {
            vio!(self, c, "{det}");
        }
        let act = self.actual(si);
        if act.iter().any(|x| !x.1) {
            vio!(self, "ledger/invalid-ref", "the set holds an element that is not live");
        }
        let (len, cap, empty) = {
            let s = self.set(si);
            (s.len(), s.capacity(), s.is_empty())
        };
        if len != act.len() {
            vio!(self, "inv/I2", "len()={} but {} occupied slots", len, act.len());
        }
        if cap < len {
            vio!(self, "cap/less-than-len", "capacity()={cap} < len()={len}");
        }
        if empty != (len == 0) {
            vio!(self, format!("len/{}", self.ctx.op_kind), "is_empty()={empty} with len()={len}");
        }
        if !self.ctx.functional() {
            return self.check_alloc_balance();
        }
        if len != self.slots[si].model.len() {
            vio!(self, format!("len/{}", self.ctx.op_kind), "len()={} but the model holds {}", len, self.slots[si].model.len());
        }
        let mut a: Vec<SE> = act.iter().map(|x| x.0).collect();
        a.sort();
        let mut m = self.slots[si].model.clone();
        m.sort();
        if a != m {
            let diff = a.iter().zip(m.iter()).find(|(x, y)| x != y);
            vio!(self, format!("contents/{}", self.ctx.op_kind), "stored elements differ from the model; first difference (actual, model) = {:?}", diff);
        }
        if !K::HAS_SERIAL && K::HAS_DROP && !self.ctx.drop_fault_fired {
            // elements without a serial are tracked as a multiset: everything live must be stored in a slot
            let stored: i64 = self.slots.iter().map(|s| s.model.len() as i64).sum();
            let live = sim().ms_live_total();
            if live != stored + self.ctx.leaked_ms {
                vio!(self, if live > stored + self.ctx.leaked_ms { "ledger/leak" } else { "ledger/double-drop" }, "{live} droppable elements are live, the collections hold {stored} (+{} deliberately leaked)", self.ctx.leaked_ms);
            }
        }
        self.ctx.transcript_add(si, len, a.iter().map(|e| e.0 as u64));
        if len as u32 <= self.ctx.cfg.sweep_below {
            self.sweep(si)?;
        }
        self.check_alloc_balance()
    }

    pub fn sweep(&mut self, si: usize) -> VResult {
        let nop = Op::new(Kd::Nop);
        let model = self.slots[si].model.clone();
        for (n, e) in model.iter().enumerate() {
            let sref = self.slots[si].set.as_ref().unwrap();
            let got = if n % 2 == 0 {
                let probe_h = K::view(e.0);
                let probe: &K::View = &*probe_h;
                self.ctx.call(&nop, || sref.get(probe).map(|k| (k.id(), k.serial())))
            } else {
                let probe = K::make(e.0);
                let r = self.ctx.call(&nop, || sref.get(&probe).map(|k| (k.id(), k.serial())));
                drop(probe);
                r
            };
            match got {
                Out::Ok(Some(g)) if g == *e => {}
                Out::Ok(g) => vio!(self, format!("sweep/{}", self.ctx.op_kind), "get({}) returned {:?}, model has {:?}", e.0, g, e),
                _ => vio!(self, format!("sweep/{}", self.ctx.op_kind), "get panicked"),
            }
        }
        let mx = model.iter().map(|e| e.0).max().unwrap_or(0);
        for j in 0..3u32 {
            let id = (mx + 1 + j * 7) % K::UNIVERSE;
            if model.iter().any(|e| e.0 == id) {
                continue;
            }
            let probe_h = K::view(id);
            let probe: &K::View = &*probe_h;
            let sref = self.slots[si].set.as_ref().unwrap();
            match self.ctx.call(&nop, || sref.contains(probe)) {
                Out::Ok(false) => {}
                _ => vio!(self, format!("sweep/{}", self.ctx.op_kind), "contains({id}) is true for an id that is not in the model (or panicked)"),
            }
        }
        let sref = self.slots[si].set.as_ref().unwrap();
        let mut itv: Vec<SE> = match self.ctx.call(&nop, || sref.iter().map(|k| (k.id(), k.serial())).collect()) {
            Out::Ok(v) => v,
            _ => vio!(self, format!("sweep/{}", self.ctx.op_kind), "iter() panicked"),
        };
        itv.sort();
        let mut m = model;
        m.sort();
        if itv != m {
            vio!(self, format!("sweep/{}", self.ctx.op_kind), "iter() yields {} elements that differ from the model's {}", itv.len(), m.len());
        }
        Ok(())
    }

    pub fn check_alloc_balance(&mut self) -> VResult {
        if self.ctx.drop_fault_fired {
            return Ok(());
        }
        let mut sum = 0u64;
        let mut blocks = 0u64;
        for s in &self.slots {
            if let Some(t) = &s.set {
                let a = t.allocation_size() as u64;
                sum += a;
                if a > 0 {
                    blocks += 1;
                }
            }
        }
        let (live, nblocks, findings) = {
            let s = sim();
            (crate::alloc::live_bytes(&s), s.blocks.len() as u64, crate::alloc::audit_live(&s))
        };
        if let Some((c, d)) = findings.into_iter().next() {
            vio!(self, c, "{d}");
        }
        if live != sum + self.ctx.leaked_bytes || nblocks != blocks + self.ctx.leaked_blocks {
            vio!(self, "alloc/size-mismatch", "allocator holds {live} bytes in {nblocks} blocks, sets report {sum} bytes in {blocks} blocks (+{} deliberately leaked)", self.ctx.leaked_bytes);
        }
        Ok(())
    }

    fn touch(&mut self, si: usize, before: &Shape) -> VResult {
        let after = self.shape(si);
        let hashes = self.ctx.last_counts[Class::Hash as usize];
        self.ctx.note_transition(before, &after, hashes);
        // I6: while the bucket count stays the same, growth_left + items + tombstones is conserved (every
        // operation only moves slots between the three accounts)
        if !before.singleton && !after.singleton && before.buckets == after.buckets {
            let (b, a) = (before.growth_left + before.items + before.deleted, after.growth_left + after.items + after.deleted);
            if a != b {
                vio!(self, "inv/I6", "capacity budget changed at constant bucket count {}: growth_left+items+tombstones {} -> {} (before: {}+{}+{}, after: {}+{}+{})", after.buckets, b, a, before.growth_left, before.items, before.deleted, after.growth_left, after.items, after.deleted);
            }
        }
        if !self.ctx.functional() {
            let act = self.actual(si);
            self.slots[si].model = act.into_iter().map(|x| x.0).collect();
        }
        self.check_slot(si)
    }

    fn dropped_check(&mut self, gone: &[SE], what: &str) -> VResult {
        if !K::HAS_SERIAL {
            return Ok(());
        }
        let s = sim();
        for e in gone {
            if s.serial_state[e.1 as usize] == 1 {
                drop(s);
                vio!(self, "ledger/leak", "{what} did not drop element {:?}", e);
            }
        }
        Ok(())
    }

    pub fn exec_op(&mut self, idx: usize, op: &Op) -> VResult {
        self.ctx.op_index = idx;
        self.ctx.op_kind = format!("{:?}", op.k);
        self.ctx.ops_executed += 1;
        self.ctx.main_recorded = false;
        self.ctx.main_counts = [0; crate::state::NCLASS];
        self.ctx.main_alloc_calls = 0;
        self.ctx.sig.add(op.k as u64);
        let si = (op.s as usize) % self.slots.len();
        let ti = (op.t as usize) % self.slots.len();
        let before = self.shape(si);
        if !self.ctx.functional() && matches!(op.k, Kd::SetOp | Kd::SetOpAssign) && crate::alloc::live_bytes(&sim()) > (64 << 10) {
            // under an equality that always fails every union doubles the set; unions of large sets are skipped
            // so that run time stays bounded (the skip depends only on simulated state, so replay is exact)
            return Ok(());
        }
        match op.k {
            Kd::Nop => return Ok(()),
            Kd::New | Kd::WithCapacity | Kd::DropSlot => self.op_new(si, op)?,
            Kd::Insert | Kd::Replace | Kd::GetOrInsert | Kd::GetOrInsertWith => self.op_insert(si, op)?,
            Kd::Get | Kd::GetView | Kd::ContainsKey => self.op_lookup(si, op)?,
            Kd::Remove | Kd::Take | Kd::RemoveView => self.op_remove(si, op)?,
            Kd::Entry => self.op_entry(si, op)?,
            Kd::Extend | Kd::ExtendRef | Kd::FromIter => self.op_extend(si, op)?,
            Kd::Clear => self.op_clear(si, op)?,
            Kd::Reserve | Kd::ShrinkTo | Kd::ShrinkToFit => self.op_capacity(si, op)?,
            Kd::TryReserve => self.op_try_reserve(si, op)?,
            Kd::Retain => self.op_retain(si, op)?,
            Kd::ExtractIf => self.op_extract_if(si, op)?,
            Kd::Drain => self.op_drain(si, op)?,
            Kd::Iter | Kd::SetIter => self.op_iter(si, op)?,
            Kd::IntoIter => self.op_into_iter(si, op)?,
            Kd::CloneTo | Kd::CloneFrom => {
                let tb = self.shape(ti);
                self.op_clone(si, ti, op)?;
                self.touch(ti, &tb)?;
            }
            Kd::EqSlots | Kd::SetPred => self.op_pred(si, ti, op)?,
            Kd::SetOp => self.op_setop(si, ti, op)?,
            Kd::SetOpAssign => self.op_setop_assign(si, ti, op)?,
            Kd::FillNoAlloc => self.op_fill_no_alloc(si, op)?,
            Kd::Par => self.op_par(si, ti, op)?,
            Kd::SerdeRoundTrip | Kd::SerdeStream => self.op_serde(si, op)?,
            other => vio!(self, "harness/bad-op", "operation {:?} is not a set operation", other),
        }
        self.touch(si, &before)
    }

    fn op_new(&mut self, si: usize, op: &Op) -> VResult {
        let old = self.slots[si].set.take().unwrap();
        let fc = self.fctx(si, op);
        let out = self.ctx.call(op, move || drop(old));
        let model = std::mem::take(&mut self.slots[si].model);
        let plan = self.slots[si].plan.clone();
        self.slots[si].set = Some(new_set::<K>(&plan, si));
        match out {
            Out::Ok(()) => {}
            Out::Fault(Class::Drop) => {
                self.ctx.drain_callback_violations()?;
                return Ok(());
            }
            other => {
                self.settle(other, si, fc)?;
                return Ok(());
            }
        }
        self.dropped_check(&model, "dropping the set")?;
        let calls0 = sim().alloc_calls;
        let want = if op.k == Kd::WithCapacity { op.a.max(0) as usize } else { 0 };
        let ns: SSet<K> = match op.k {
            Kd::WithCapacity => HashSet::with_capacity_and_hasher_in(want, SimBuildHasher::new(plan.clone()), SimAlloc::of_slot(si)),
            Kd::DropSlot => {
                self.slots[si].plan = Plan::Mixed(0);
                Default::default()
            }
            _ => new_set::<K>(&plan, si),
        };
        let calls = sim().alloc_calls - calls0;
        let cap = ns.capacity();
        self.slots[si].set = Some(ns);
        if want == 0 && calls != 0 {
            vio!(self, "cap/alloc-on-new", "constructing an empty set with capacity 0 called the allocator {calls} times");
        }
        if cap < want {
            vio!(self, "cap/with-capacity", "with_capacity({want}) gives capacity() {cap}");
        }
        Ok(())
    }

    fn op_insert(&mut self, si: usize, op: &Op) -> VResult {
        let id = op.a as u32 % K::UNIVERSE;
        let k = K::make(id);
        let ks = k.serial();
        let mut fc = self.fctx(si, op);
        fc.allowed_ids = vec![id];
        fc.arg_serials = vec![ks];
        let present = self.has(si, id);
        let lie = op.k == Kd::GetOrInsertWith && op.b == 1 && K::UNIVERSE > 1;
        let view_h = K::view(id);
        let view: &K::View = &*view_h;
        let s = self.slots[si].set.as_mut().unwrap();
        // result: (bool / returned element, returned old instance)
        let mut old_back: Vec<K> = Vec::new();
        let ob = &mut old_back;
        let mut unused: Vec<K> = Vec::new();
        let un = &mut unused;
        // insert_unique_unchecked: "the value is not in the set" is the caller's obligation
        let unique = op.k == Kd::Insert && op.c == 1 && present.is_none() && self.ctx.functional() && self.ctx.cfg.eq_mode == crate::state::EqMode::Lawful;
        if unique {
            sim().probe(Probe::InsertUniqueUnchecked);
        }
        let out = match op.k {
            Kd::Insert if unique => self.ctx.call(op, || {
                let r = unsafe { s.insert_unique_unchecked(k) };
                let t = (r.id(), r.serial());
                (true, if t == (id, ks) { None } else { Some(t) })
            }),
            Kd::Insert => self.ctx.call(op, || (s.insert(k), None)),
            Kd::Replace => self.ctx.call(op, || {
                let r = s.replace(k);
                let t = r.as_ref().map(|o| (o.id(), o.serial()));
                if let Some(o) = r {
                    ob.push(o);
                }
                (t.is_some(), t)
            }),
            Kd::GetOrInsert => self.ctx.call(op, || {
                let r = s.get_or_insert(k);
                (true, Some((r.id(), r.serial())))
            }),
            _ => self.ctx.call(op, || {
                let mut slot = Some(k);
                let r = s.get_or_insert_with(view, |_q| {
                    tick(Class::Pred);
                    let k = slot.take().unwrap();
                    if lie {
                        // a constructor that returns a value not equivalent to the probe
                        un.push(k);
                        K::make((id + 1) % K::UNIVERSE)
                    } else {
                        k
                    }
                });
                let t = (r.id(), r.serial());
                if let Some(k) = slot {
                    un.push(k);
                }
                (true, Some(t))
            }),
        };
        drop(old_back);
        drop(unused);
        if lie && present.is_none() {
            // required: the call panics and the set is unchanged
            match out {
                Out::Panic(_) => {
                    let act = self.actual(si);
                    let mut a: Vec<SE> = act.iter().map(|x| x.0).collect();
                    a.sort();
                    let mut m = self.slots[si].model.clone();
                    m.sort();
                    if a != m && self.ctx.functional() {
                        vio!(self, "set/get_or_insert_with", "a refused non-equivalent value changed the set");
                    }
                    return Ok(());
                }
                Out::Ok(_) if self.ctx.functional() => vio!(self, "set/get_or_insert_with", "get_or_insert_with({id}) stored a value that is not equivalent to the probe instead of panicking"),
                o => {
                    self.settle(o, si, fc)?;
                    return Ok(());
                }
            }
        }
        if !self.ctx.functional() && op.k == Kd::GetOrInsertWith && matches!(out, Out::Panic(_)) {
            // with a broken Eq the documented "new value is not equivalent" assertion may fire: a panic, not UB
            self.ctx.drain_callback_violations()?;
            return Ok(());
        }
        let Some((flag, ret)) = self.settle(out, si, fc)? else { return Ok(()) };
        if !self.ctx.functional() {
            return Ok(());
        }
        let class = format!("ret/{:?}", op.k);
        let model = &mut self.slots[si].model;
        match op.k {
            Kd::Insert => {
                if flag != present.is_none() {
                    vio!(self, class, "insert({id}) returned {flag}, the model {} the id", if present.is_some() { "already holds" } else { "does not hold" });
                }
                if let Some(t) = ret {
                    vio!(self, class, "insert_unique_unchecked({id}) returned a reference to {:?}, not to the inserted element (serial {ks})", t);
                }
                if present.is_none() {
                    model.push((id, ks));
                }
            }
            Kd::Replace => {
                if ret != present {
                    vio!(self, class, "replace({id}) returned {:?}, the model expects {:?}", ret, present);
                }
                match model.iter().position(|e| e.0 == id) {
                    Some(p) => model[p].1 = ks,
                    None => model.push((id, ks)),
                }
            }
            _ => {
                let want = present.unwrap_or((id, ks));
                // get_or_insert_with builds its own instance: the serial is the one we passed (not lying)
                if ret != Some(want) {
                    vio!(self, class, "{:?}({id}) returned {:?}, the model expects {:?}", op.k, ret, want);
                }
                if present.is_none() {
                    model.push((id, ks));
                }
            }
        }
        Ok(())
    }

    fn op_lookup(&mut self, si: usize, op: &Op) -> VResult {
        let id = op.a as u32 % K::UNIVERSE;
        let fc = self.fctx(si, op);
        let want = self.has(si, id);
        let s = self.slots[si].set.as_ref().unwrap();
        let probe = K::make(id);
        let view_h = K::view(id);
        let view: &K::View = &*view_h;
        let out = match op.k {
            Kd::Get => self.ctx.call(op, || s.get(&probe).map(|k| ((k.id(), k.serial()), k.intact()))),
            Kd::GetView => self.ctx.call(op, || s.get(view).map(|k| ((k.id(), k.serial()), k.intact()))),
            _ => self.ctx.call(op, || if s.contains(view) { Some(((id, 0), true)) } else { None }),
        };
        drop(probe);
        let Some(got) = self.settle(out, si, fc)? else { return Ok(()) };
        if let Some((_, false)) = got {
            vio!(self, "ledger/invalid-ref", "{:?}({id}) handed out a reference to something that is not live", op.k);
        }
        if !self.ctx.functional() {
            return Ok(());
        }
        let ok = match (want, got) {
            (None, None) => true,
            (Some(w), Some((g, _))) => op.k == Kd::ContainsKey || g == w,
            _ => false,
        };
        if !ok {
            vio!(self, format!("ret/{:?}", op.k), "{:?}({id}) returned {:?}, the model has {:?}", op.k, got.map(|x| x.0), want);
        }
        Ok(())
    }

    fn op_remove(&mut self, si: usize, op: &Op) -> VResult {
        let id = op.a as u32 % K::UNIVERSE;
        let fc = self.fctx(si, op);
        let want = self.has(si, id);
        let s = self.slots[si].set.as_mut().unwrap();
        let view_h = K::view(id);
        let view: &K::View = &*view_h;
        let mut back: Vec<K> = Vec::new();
        let bk = &mut back;
        let out = if op.k == Kd::Take {
            self.ctx.call(op, || {
                let r = s.take(view);
                let t = r.as_ref().map(|k| (k.id(), k.serial()));
                if let Some(k) = r {
                    bk.push(k);
                }
                (t.is_some(), t)
            })
        } else {
            self.ctx.call(op, || (s.remove(view), None))
        };
        let intact = back.iter().all(|k| k.intact());
        drop(back);
        let Some((flag, ret)) = self.settle(out, si, fc)? else { return Ok(()) };
        if !intact {
            vio!(self, "ledger/invalid-ref", "take({id}) returned an element that is not live");
        }
        if !self.ctx.functional() {
            return Ok(());
        }
        if flag != want.is_some() || (op.k == Kd::Take && ret != want) {
            vio!(self, format!("ret/{:?}", op.k), "{:?}({id}) returned {flag} / {:?}, the model has {:?}", op.k, ret, want);
        }
        if let Some(w) = want {
            self.slots[si].model.retain(|e| e.0 != id);
            self.dropped_check(&[w], "remove/take")?;
        }
        Ok(())
    }

    fn op_entry(&mut self, si: usize, op: &Op) -> VResult {
        // c: 0 Entry::insert, 1 or_insert, 2 get, 3 Occupied -> remove / Vacant -> insert,
        //    4 Vacant -> into_value / Occupied -> get, 5 drop unused
        let id = op.a as u32 % K::UNIVERSE;
        let mode = op.c.rem_euclid(6);
        let k = K::make(id);
        let ks = k.serial();
        let mut fc = self.fctx(si, op);
        fc.allowed_ids = vec![id];
        fc.arg_serials = vec![ks];
        let present = self.has(si, id);
        {
            let sh = self.shape(si);
            let st = self.set(si);
            let mut s = sim();
            if sh.singleton {
                s.probe(Probe::EntryOnSingleton);
            } else if st.capacity() == st.len() {
                s.probe(Probe::EntryAtFullLoad);
            }
        }
        let s = self.slots[si].set.as_mut().unwrap();
        let mut back: Vec<K> = Vec::new();
        let bk = &mut back;
        // result: (occupied?, element seen through the entry, removed?)
        let out = self.ctx.call(op, move || {
            let e = s.entry(k);
            let occ = matches!(e, Entry::Occupied(_));
            let seen = match mode {
                0 => {
                    let o = e.insert();
                    Some((o.get().id(), o.get().serial()))
                }
                1 => {
                    e.or_insert();
                    None
                }
                2 => Some((e.get().id(), e.get().serial())),
                3 => match e {
                    Entry::Occupied(o) => {
                        let k = o.remove();
                        let t = (k.id(), k.serial());
                        bk.push(k);
                        Some(t)
                    }
                    Entry::Vacant(v) => {
                        let o = v.insert();
                        Some((o.get().id(), o.get().serial()))
                    }
                },
                4 => match e {
                    Entry::Occupied(o) => Some((o.get().id(), o.get().serial())),
                    Entry::Vacant(v) => {
                        let t = (v.get().id(), v.get().serial());
                        bk.push(v.into_value());
                        Some(t)
                    }
                },
                _ => {
                    drop(e);
                    None
                }
            };
            (occ, seen)
        });
        drop(back);
        let Some((occ, seen)) = self.settle(out, si, fc)? else { return Ok(()) };
        if !self.ctx.functional() {
            return Ok(());
        }
        if occ != present.is_some() {
            vio!(self, "entry/Entry", "set entry({id}) is Occupied={occ}, the model has {:?}", present);
        }
        let model = &mut self.slots[si].model;
        let expect_seen = match (mode, present) {
            (0, Some(p)) => Some(p),
            (0, None) => {
                model.push((id, ks));
                Some((id, ks))
            }
            (1, None) => {
                model.push((id, ks));
                None
            }
            (1, Some(_)) => None,
            (2, p) => Some(p.unwrap_or((id, ks))),
            (3, Some(p)) => {
                model.retain(|e| e.0 != id);
                Some(p)
            }
            (3, None) => {
                model.push((id, ks));
                Some((id, ks))
            }
            (4, p) => Some(p.unwrap_or((id, ks))),
            _ => {
                sim().probe(Probe::VacantDropped);
                None
            }
        };
        if seen != expect_seen {
            vio!(self, "entry/Entry", "set entry({id}) mode {mode} observed {:?}, the model expects {:?}", seen, expect_seen);
        }
        Ok(())
    }

    /// `HashSet::from([T; N])` (default hasher only; see the map world): same contents as inserting in order (the
    /// first instance of equal elements is kept), every instance dropped exactly once.
    fn op_from_array(&mut self, ids: &[u32]) -> VResult {
        type DSet<K> = hashbrown::HashSet<K, hashbrown::DefaultHashBuilder, SimAlloc>;
        fn build<K: KeyT, const N: usize>(items: Vec<K>) -> DSet<K> {
            let arr: [K; N] = match items.try_into() {
                Ok(a) => a,
                Err(_) => unreachable!(),
            };
            DSet::from(arr)
        }
        let items: Vec<K> = ids.iter().map(|&i| K::make(i)).collect();
        let toks: Vec<SE> = items.iter().map(|k| (k.id(), k.serial())).collect();
        sim().probe(Probe::FromArray);
        sim().quiet = true;
        let extra = [0usize, 0, 1, 3, 9, 23, 100][(ids.iter().sum::<u32>() as usize + ids.len()) % 7];
        let r = std::panic::catch_unwind(std::panic::AssertUnwindSafe(|| {
            let s: DSet<K> = match items.len() {
                0 => build::<K, 0>(items),
                1 => build::<K, 1>(items),
                2 => build::<K, 2>(items),
                3 => build::<K, 3>(items),
                4 => build::<K, 4>(items),
                5 => build::<K, 5>(items),
                _ => build::<K, 8>(items),
            };
            let got: Vec<SE> = s.iter().map(|k| (k.id(), k.serial())).collect();
            let len = s.len();
            let ok = s.iter().all(|k| k.intact());
            drop(s);
            let ct = crate::ctors::set_ctors::<K>(ids, extra);
            (got, len, ok, ct)
        }));
        sim().quiet = false;
        let (mut got, len, ok, ct) = match r {
            Ok(x) => x,
            Err(_) => vio!(self, "panic/FromIter", "HashSet::from(array of {} elements) panicked", toks.len()),
        };
        if let Err((class, msg)) = ct {
            vio!(self, class, "{}", msg);
        }
        if !ok {
            vio!(self, "ledger/invalid-ref", "HashSet::from(array) holds an element that is not live");
        }
        let mut want: Vec<SE> = Vec::new();
        for t in &toks {
            if !want.iter().any(|e| e.0 == t.0) {
                want.push(*t);
            }
        }
        got.sort();
        want.sort();
        if got != want || len != want.len() {
            vio!(self, "ret/FromIter", "HashSet::from(array of {} elements) holds {:?} (len() {len}), inserting in order gives {:?}", toks.len(), got, want);
        }
        if K::HAS_SERIAL {
            let s = sim();
            for t in &toks {
                if s.serial_state[t.1 as usize] != 2 {
                    drop(s);
                    vio!(self, "ledger/leak", "after HashSet::from(array) and dropping the set instance {:?} was not dropped exactly once", t);
                }
            }
        }
        Ok(())
    }

    fn pod_set(s: &mut SSet<K>) -> Option<&mut SSet<crate::elem::PodKey>> {
        if std::any::TypeId::of::<K>() == std::any::TypeId::of::<crate::elem::PodKey>() {
            // SAFETY: the two types are the same type
            Some(unsafe { &mut *(s as *mut SSet<K> as *mut SSet<crate::elem::PodKey>) })
        } else {
            None
        }
    }

    fn op_extend(&mut self, si: usize, op: &Op) -> VResult {
        let ids: Vec<u32> = op.v.chunks(2).map(|c| c[0] as u32 % K::UNIVERSE).collect();
        if op.k == Kd::FromIter && op.b == 1 && op.f.is_none() && self.ctx.functional() && self.ctx.cfg.eq_mode == crate::state::EqMode::Lawful && matches!(ids.len(), 0..=5 | 8) {
            return self.op_from_array(&ids);
        }
        let items: Vec<K> = ids.iter().map(|&i| K::make(i)).collect();
        let toks: Vec<SE> = items.iter().map(|k| (k.id(), k.serial())).collect();
        let mut fc = self.fctx(si, op);
        fc.allowed_ids = ids.clone();
        fc.arg_serials = toks.iter().map(|t| t.1).collect();
        fc.multi = true;
        let src = SimSource { items: items.into_iter(), hint: if op.a < 0 { None } else { Some(op.a as usize) } };
        let out = if op.k == Kd::ExtendRef && Self::pod_set(self.slots[si].set.as_mut().unwrap()).is_some() {
            // `Extend<&T>` exists for `Copy` elements only
            sim().probe(Probe::ExtendByRef);
            drop(src);
            let pod: Vec<crate::elem::PodKey> = ids.iter().map(|&i| crate::elem::PodKey(i)).collect();
            let s = Self::pod_set(self.slots[si].set.as_mut().unwrap()).unwrap();
            self.ctx.call(op, || s.extend(pod.iter()))
        } else if op.k != Kd::FromIter {
            let s = self.slots[si].set.as_mut().unwrap();
            self.ctx.call(op, || s.extend(src))
        } else {
            fc.fresh_ok = true;
            let old = self.slots[si].set.replace(Default::default()).unwrap();
            drop(old);
            self.slots[si].model.clear();
            fc.before.clear();
            self.slots[si].plan = Plan::Mixed(0);
            match self.ctx.call(op, || src.collect::<SSet<K>>()) {
                Out::Ok(s) => {
                    self.slots[si].set = Some(s);
                    Out::Ok(())
                }
                Out::Fault(c) => Out::Fault(c),
                Out::Ceiling(n) => Out::Ceiling(n),
                Out::Diverge(n) => Out::Diverge(n),
                Out::Panic(p) => Out::Panic(p),
            }
        };
        let Some(()) = self.settle(out, si, fc)? else { return Ok(()) };
        if !self.ctx.functional() {
            return Ok(());
        }
        for t in toks {
            // Extend on a set keeps the element that is already stored
            if !self.slots[si].model.iter().any(|e| e.0 == t.0) {
                self.slots[si].model.push(t);
            }
        }
        Ok(())
    }

    fn op_clear(&mut self, si: usize, op: &Op) -> VResult {
        let fc = self.fctx(si, op);
        let cap0 = self.set(si).capacity();
        let size0 = self.set(si).allocation_size();
        let s = self.slots[si].set.as_mut().unwrap();
        let out = self.ctx.call(op, || s.clear());
        let Some(()) = self.settle(out, si, fc)? else { return Ok(()) };
        let model = std::mem::take(&mut self.slots[si].model);
        if !self.ctx.functional() {
            return Ok(());
        }
        self.dropped_check(&model, "clear()")?;
        if self.ctx.last_alloc_calls + self.ctx.last_dealloc_calls != 0 || self.set(si).allocation_size() != size0 {
            vio!(self, "cap/clear-changed-allocation", "clear() changed the allocation");
        }
        if self.set(si).capacity() < cap0 {
            vio!(self, "cap/clear-lost-capacity", "after clear() capacity() is {} (it was {cap0} before)", self.set(si).capacity());
        }
        Ok(())
    }

    fn op_capacity(&mut self, si: usize, op: &Op) -> VResult {
        let n = op.a.max(0) as usize;
        let fc = self.fctx(si, op);
        let (len, cap0, size0) = {
            let s = self.set(si);
            (s.len(), s.capacity(), s.allocation_size())
        };
        let s = self.slots[si].set.as_mut().unwrap();
        let out = match op.k {
            Kd::Reserve => self.ctx.call(op, || s.reserve(n)),
            Kd::ShrinkTo => self.ctx.call(op, || s.shrink_to(n)),
            _ => self.ctx.call(op, || s.shrink_to_fit()),
        };
        let Some(()) = self.settle(out, si, fc)? else { return Ok(()) };
        if !self.ctx.functional() {
            return Ok(());
        }
        let (cap1, size1) = {
            let s = self.set(si);
            (s.capacity(), s.allocation_size())
        };
        if op.k == Kd::Reserve {
            if cap1 < len + n {
                vio!(self, "cap/reserve", "after reserve({n}) capacity()={cap1} < len()+n={}", len + n);
            }
        } else {
            let mreq = if op.k == Kd::ShrinkTo { n } else { 0 };
            if size1 > size0 {
                vio!(self, "cap/shrink-grew", "{:?}({mreq}) enlarged the allocation from {size0} to {size1}", op.k);
            }
            if cap1 < len.max(mreq.min(cap0)) {
                vio!(self, "cap/shrink-floor", "{:?}({mreq}) left capacity()={cap1} < max(len={len}, min(m, old capacity={cap0}))", op.k);
            }
            if len == 0 && mreq == 0 && size1 != 0 {
                vio!(self, "cap/shrink-empty", "{:?}(0) on an empty set keeps {size1} bytes", op.k);
            }
            if !(len == 0 && mreq == 0) {
                let fresh: SSet<K> = HashSet::with_capacity_and_hasher_in(len.max(mreq), SimBuildHasher::new(Plan::Const0), SimAlloc);
                let fs = fresh.allocation_size();
                drop(fresh);
                if size1 > fs {
                    vio!(self, "cap/shrink-not-tight", "{:?}({mreq}) leaves {size1} bytes, a fresh with_capacity({}) needs {fs}", op.k, len.max(mreq));
                }
            }
        }
        Ok(())
    }

    fn op_try_reserve(&mut self, si: usize, op: &Op) -> VResult {
        let n = op.a as u64 as usize;
        let fc = self.fctx(si, op);
        let (len, cap0, size0) = {
            let s = self.set(si);
            (s.len(), s.capacity(), s.allocation_size())
        };
        let d0 = hashbrown::verif::dump_set(self.set(si));
        let blocks0 = sim().blocks.len();
        let dropped0 = sim().dropped;
        let s = self.slots[si].set.as_mut().unwrap();
        let out = self.ctx.call(op, || s.try_reserve(n));
        let r = match out {
            Out::Panic(msg) => vio!(self, "tryreserve/panic", "try_reserve({n}) panicked: {msg}"),
            o => {
                let Some(r) = self.settle(o, si, fc)? else { return Ok(()) };
                r
            }
        };
        let esz = std::mem::size_of::<K>() as u128;
        let need = len as u128 + n as u128;
        match r {
            Ok(()) => {
                sim().probe(Probe::TryReserveOk);
                let cap1 = self.set(si).capacity();
                if (cap1 as u128) < need {
                    vio!(self, "tryreserve/ok-too-small", "try_reserve({n}) returned Ok but capacity()={cap1} < len()+additional={need}");
                }
                if need * esz.max(1) > isize::MAX as u128 {
                    vio!(self, "tryreserve/ok-impossible", "try_reserve({n}) returned Ok for an unrepresentable size");
                }
            }
            Err(ref e) => {
                match *e {
                    hashbrown::TryReserveError::CapacityOverflow => {
                        sim().probe(Probe::CapacityOverflow);
                        if need.saturating_mul(esz + 1).saturating_mul(4) < (isize::MAX as u128) / 4 {
                            vio!(self, "tryreserve/spurious-overflow", "try_reserve({n}) with len {len}, element size {esz} reported CapacityOverflow although the size is comfortably representable");
                        }
                    }
                    hashbrown::TryReserveError::AllocError { ref layout } => {
                        sim().probe(Probe::RefusedAlloc);
                        if need * esz > isize::MAX as u128 {
                            vio!(self, "tryreserve/alloc-for-unrepresentable", "try_reserve({n}) cannot be represented, yet the allocator was asked for {:?}", self.ctx.last_refused_layout);
                        }
                        if self.ctx.last_refused == 0 {
                            vio!(self, "tryreserve/phantom-allocerror", "try_reserve({n}) reported AllocError but the allocator refused nothing");
                        }
                        if self.ctx.last_refused_layout != Some((layout.size(), layout.align())) {
                            vio!(self, "tryreserve/wrong-layout", "AllocError carries layout {:?}, the allocator refused {:?}", (layout.size(), layout.align()), self.ctx.last_refused_layout);
                        }
                    }
                }
                let d1 = hashbrown::verif::dump_set(self.set(si));
                let s = self.set(si);
                if d1 != d0 || s.len() != len || s.capacity() != cap0 || s.allocation_size() != size0 {
                    vio!(self, "tryreserve/err-changed-state", "a failed try_reserve({n}) changed the set");
                }
                if sim().blocks.len() != blocks0 {
                    vio!(self, "tryreserve/err-leak", "a failed try_reserve({n}) changed the number of live blocks");
                }
                if sim().dropped != dropped0 {
                    vio!(self, "tryreserve/err-dropped", "a failed try_reserve({n}) dropped elements");
                }
            }
        }
        Ok(())
    }

    fn op_retain(&mut self, si: usize, op: &Op) -> VResult {
        let keep: Vec<u32> = op.v.iter().map(|&x| x as u32).collect();
        let fc = self.fctx(si, op);
        let mut seen: Vec<SE> = Vec::new();
        let sr = &mut seen;
        let s = self.slots[si].set.as_mut().unwrap();
        let out = self.ctx.call(op, || {
            s.retain(|k| {
                tick(Class::Pred);
                sr.push((k.id(), k.serial()));
                keep.contains(&k.id())
            })
        });
        let Some(()) = self.settle(out, si, fc)? else { return Ok(()) };
        if !self.ctx.functional() {
            return Ok(());
        }
        let mut s1 = seen.clone();
        s1.sort();
        let mut s2 = self.slots[si].model.clone();
        s2.sort();
        if s1 != s2 {
            vio!(self, "retain/visits", "retain called its predicate on {} elements, the set held {}", s1.len(), s2.len());
        }
        let removed: Vec<SE> = self.slots[si].model.iter().filter(|e| !keep.contains(&e.0)).copied().collect();
        self.slots[si].model.retain(|e| keep.contains(&e.0));
        self.dropped_check(&removed, "retain")
    }

    fn op_extract_if(&mut self, si: usize, op: &Op) -> VResult {
        let yes: Vec<u32> = op.v.iter().map(|&x| x as u32).collect();
        let steps = op.a;
        let forget = op.b == 1;
        let fc = self.fctx(si, op);
        let mut visited: Vec<SE> = Vec::new();
        let vis = &mut visited;
        let n0 = self.slots[si].model.len();
        let mut hint_errs: Vec<String> = Vec::new();
        let er = &mut hint_errs;
        let s = self.slots[si].set.as_mut().unwrap();
        let out = self.ctx.call(op, || {
            let mut itx = s.extract_if(|k| {
                tick(Class::Pred);
                vis.push((k.id(), k.serial()));
                yes.contains(&k.id())
            });
            let (got, errs) = crate::iterdrv::drive_extract(&mut itx, steps, n0);
            *er = errs;
            if forget {
                std::mem::forget(itx);
            } else {
                drop(itx);
            }
            got
        });
        {
            let mut s = sim();
            if forget {
                s.probe(Probe::LeakExtract);
            } else if steps >= 0 {
                s.probe(Probe::EarlyDropExtract);
            }
        }
        let Some(got) = self.settle(out, si, fc)? else { return Ok(()) };
        let mut g: Vec<SE> = got.iter().map(|k| (k.id(), k.serial())).collect();
        let intact = got.iter().all(|k| k.intact());
        drop(got);
        if !intact {
            vio!(self, "ledger/invalid-ref", "extract_if yielded an element that is not live");
        }
        if !self.ctx.functional() {
            return Ok(());
        }
        if let Some(e) = hint_errs.into_iter().next() {
            vio!(self, "iterlen/ExtractIf", "{e}");
        }
        let model = &mut self.slots[si].model;
        let total = model.len();
        let mut expect: Vec<SE> = Vec::new();
        for v in &visited {
            match model.iter().position(|m| m == v) {
                Some(p) => {
                    if yes.contains(&v.0) {
                        expect.push(model.swap_remove(p));
                    }
                }
                None => vio!(self, "extract/visit-alien", "extract_if visited {:?} which is not in the set (or visited it twice)", v),
            }
        }
        g.sort();
        expect.sort();
        if g != expect {
            vio!(self, "extract/yield", "extract_if yielded {:?}, expected exactly the visited elements answered true {:?}", g, expect);
        }
        if steps < 0 && visited.len() != total {
            vio!(self, "extract/visits", "an exhausted extract_if visited {} of {} elements", visited.len(), total);
        }
        Ok(())
    }

    fn op_drain(&mut self, si: usize, op: &Op) -> VResult {
        let steps = op.a;
        let forget = op.b == 1;
        // b == 2: after the next() calls the rest is consumed through fold()
        let fold = op.b == 2;
        let fc = self.fctx(si, op);
        let cap0 = self.set(si).capacity();
        let size0 = self.set(si).allocation_size();
        let n0 = self.slots[si].model.len();
        let s = self.slots[si].set.as_mut().unwrap();
        let out = self.ctx.call(op, || {
            let mut itx = s.drain();
            let mut got: Vec<K> = Vec::new();
            let mut errs: Vec<String> = Vec::new();
            let mut n = 0usize;
            loop {
                let rem = n0 - n.min(n0);
                if itx.len() != rem || itx.size_hint() != (rem, Some(rem)) {
                    errs.push(format!("after {n} items drain reports len {} size_hint {:?}, true remaining {rem}", itx.len(), itx.size_hint()));
                    break;
                }
                if steps >= 0 && n as i64 >= steps {
                    break;
                }
                match itx.next() {
                    Some(x) => got.push(x),
                    None => break,
                }
                n += 1;
            }
            if fold {
                sim().probe(Probe::DrainFold);
                got = itx.fold(got, |mut acc, x| {
                    acc.push(x);
                    acc
                });
            } else if forget {
                std::mem::forget(itx);
            } else {
                drop(itx);
            }
            (got, errs)
        });
        {
            let mut s = sim();
            if forget {
                s.probe(Probe::LeakDrain);
            } else if steps >= 0 && !fold {
                s.probe(Probe::EarlyDropDrain);
            }
        }
        let Some((got, errs)) = self.settle(out, si, fc)? else { return Ok(()) };
        let g: Vec<SE> = got.iter().map(|k| (k.id(), k.serial())).collect();
        let intact = got.iter().all(|k| k.intact());
        drop(got);
        if !intact {
            vio!(self, "ledger/invalid-ref", "drain yielded an element that is not live");
        }
        let model = std::mem::take(&mut self.slots[si].model);
        let rest: Vec<SE> = model.iter().filter(|m| !g.contains(m)).copied().collect();
        if forget {
            if size0 > 0 {
                self.ctx.leaked_bytes += size0 as u64;
                self.ctx.leaked_blocks += 1;
            }
            for e in &rest {
                if K::HAS_SERIAL {
                    self.ctx.leaked_serials.insert(e.1);
                } else if K::HAS_DROP {
                    self.ctx.leaked_ms += 1;
                }
            }
        }
        if !self.ctx.functional() {
            return Ok(());
        }
        if let Some(e) = errs.into_iter().next() {
            vio!(self, "iterlen/Drain", "{e}");
        }
        if g.len() + rest.len() != model.len() || g.iter().any(|x| !model.contains(x)) {
            vio!(self, "drain/yield", "drain yielded an element that was not in the set, or one twice");
        }
        if (fold || steps < 0 || steps as usize >= n0) && g.len() != model.len() {
            vio!(self, "drain/yield", "a fully consumed drain yielded {} elements, the set held {}", g.len(), model.len());
        }
        if !forget {
            self.dropped_check(&rest, "dropping the drain")?;
        }
        let st = self.set(si);
        if st.len() != 0 {
            vio!(self, "drain/not-empty", "after drain the set has len() {}", st.len());
        }
        if !forget && (st.allocation_size() != size0 || self.ctx.last_alloc_calls + self.ctx.last_dealloc_calls != 0) {
            vio!(self, "drain/allocation", "drain changed the allocation");
        }
        if !forget && self.set(si).capacity() < cap0 {
            vio!(self, "drain/capacity-lost", "after drain capacity() is {} although the collection is empty and keeps its allocation (it was {cap0} before)", self.set(si).capacity());
        }
        Ok(())
    }

    fn op_iter(&mut self, si: usize, op: &Op) -> VResult {
        let plan = IterPlan::from_v(&op.v);
        let which = op.a.rem_euclid(3);
        let total = self.slots[si].model.len();
        let fc = self.fctx(si, op);
        let s = self.slots[si].set.as_ref().unwrap();
        let out = self.ctx.call(op, || match which {
            0 => drive(s.iter().map(|k| it(k)), total, &plan, Some(&|i| i.clone())),
            1 => drive(s.into_iter().map(|k| it(k)), total, &plan, Some(&|i| i.clone())),
            _ => drive(hashbrown::hash_set::Iter::<K>::default().map(|k| it(k)), 0, &plan, Some(&|i| i.clone())),
        });
        if which == 2 {
            sim().probe(Probe::IterDefault);
        }
        let Some(log) = self.settle(out, si, fc)? else { return Ok(()) };
        if !self.ctx.functional() {
            return Ok(());
        }
        let model: Vec<Item> = if which == 2 { Vec::new() } else { self.slots[si].model.iter().map(|e| (e.0, e.1, 0, 0)).collect() };
        if let Some(e) = judge(&log, &model, &plan) {
            vio!(self, "iter/Iter", "set iterator kind {which}, plan {:?}: {e}", plan);
        }
        Ok(())
    }

    fn op_into_iter(&mut self, si: usize, op: &Op) -> VResult {
        let plan = IterPlan::from_v(&op.v);
        let total = self.slots[si].model.len();
        let fc = self.fctx(si, op);
        if op.a.rem_euclid(6) >= 3 {
            sim().probe(Probe::IterDefault);
            let out = self.ctx.call(op, || drive(hashbrown::hash_set::IntoIter::<K, SimAlloc>::default().map(|k| it(&k)), 0, &plan, None));
            let Some(log) = self.settle(out, si, fc)? else { return Ok(()) };
            if let Some(e) = judge(&log, &[], &plan) {
                vio!(self, "iter/IntoIter", "default-constructed set IntoIter: {e}");
            }
            return Ok(());
        }
        let model = std::mem::take(&mut self.slots[si].model);
        let size0 = self.set(si).allocation_size() as u64;
        let fresh = new_set::<K>(&self.slots[si].plan.clone(), si);
        let s = self.slots[si].set.replace(fresh).unwrap();
        let mut owned: Vec<K> = Vec::new();
        let ow = &mut owned;
        let out = self.ctx.call(op, move || {
            drive(
                s.into_iter().map(|k| {
                    let r = it(&k);
                    ow.push(k);
                    r
                }),
                total,
                &plan,
                None,
            )
        });
        let intact = owned.iter().all(|k| k.intact());
        drop(owned);
        {
            let mut s = sim();
            match plan.finish {
                4 => s.probe(Probe::LeakIntoIter),
                3 => s.probe(Probe::EarlyDropIntoIter),
                _ => {}
            }
        }
        let log = match out {
            Out::Ok(l) => l,
            Out::Fault(_) => {
                self.ctx.drain_callback_violations()?;
                return Ok(());
            }
            other => {
                self.settle(other, si, fc)?;
                return Ok(());
            }
        };
        if !intact {
            vio!(self, "ledger/invalid-ref", "the set IntoIter yielded an element that is not live");
        }
        let proj: Vec<Item> = model.iter().map(|e| (e.0, e.1, 0, 0)).collect();
        if self.ctx.functional() {
            if let Some(e) = judge(&log, &proj, &plan) {
                vio!(self, "iter/IntoIter", "set IntoIter, plan {:?}: {e}", plan);
            }
        }
        if plan.finish == 4 {
            let visited: Vec<Item> = log.head.iter().chain(log.tail.iter()).copied().collect();
            for itm in crate::iterdrv::multiset_minus(&proj, &visited) {
                if K::HAS_SERIAL {
                    self.ctx.leaked_serials.insert(itm.1);
                } else if K::HAS_DROP {
                    self.ctx.leaked_ms += 1;
                }
            }
            if size0 > 0 {
                self.ctx.leaked_bytes += size0;
                self.ctx.leaked_blocks += 1;
            }
        } else {
            self.dropped_check(&model, "consuming/dropping the set IntoIter")?;
        }
        Ok(())
    }

    fn op_clone(&mut self, si: usize, ti: usize, op: &Op) -> VResult {
        if si == ti {
            return Ok(());
        }
        let mut fc = self.fctx(ti, op);
        fc.fresh_ok = true;
        fc.allowed_ids = self.slots[si].model.iter().map(|e| e.0).collect();
        let src_model = self.slots[si].model.clone();
        let created0 = sim().created;
        let out = if op.k == Kd::CloneTo {
            let plan = self.slots[ti].plan.clone();
            let old = self.slots[ti].set.replace(new_set::<K>(&plan, ti)).unwrap();
            drop(old);
            self.slots[ti].model.clear();
            fc.before.clear();
            let src = self.slots[si].set.as_ref().unwrap();
            match self.ctx.call(op, || src.clone()) {
                Out::Ok(s) => {
                    self.slots[ti].set = Some(s);
                    Out::Ok(())
                }
                Out::Fault(c) => Out::Fault(c),
                Out::Ceiling(n) => Out::Ceiling(n),
                Out::Diverge(n) => Out::Diverge(n),
                Out::Panic(p) => Out::Panic(p),
            }
        } else {
            let (a, b) = if si < ti {
                let (l, r) = self.slots.split_at_mut(ti);
                (&l[si], &mut r[0])
            } else {
                let (l, r) = self.slots.split_at_mut(si);
                (&r[0], &mut l[ti])
            };
            let src = a.set.as_ref().unwrap();
            let dst = b.set.as_mut().unwrap();
            self.ctx.call(op, || dst.clone_from(src))
        };
        let old_model = self.slots[ti].model.clone();
        let Some(()) = self.settle(out, ti, fc)? else { return Ok(()) };
        self.slots[ti].plan = self.slots[si].plan.clone();
        let act = self.actual(ti);
        if self.ctx.functional() {
            let a: BTreeSet<u32> = act.iter().map(|x| x.0 .0).collect();
            if a != ids_of(&src_model) || act.len() != src_model.len() {
                vio!(self, format!("clone/{:?}", op.k), "the cloned set holds {} elements that differ from the source's {}", act.len(), src_model.len());
            }
            if K::HAS_SERIAL && act.iter().any(|(e, _)| src_model.iter().any(|s| s.1 == e.1)) {
                vio!(self, format!("clone/{:?}", op.k), "the clone shares an element instance with the source");
            }
            let made = sim().created - created0;
            if K::HAS_DROP && made != src_model.len() as u64 {
                vio!(self, format!("clone/{:?}", op.k), "cloning {} elements created {made} element instances", src_model.len());
            }
            self.dropped_check(&old_model, "clone_from (old target contents)")?;
        }
        self.slots[ti].model = act.into_iter().map(|x| x.0).collect();
        Ok(())
    }

    fn note_sizes(&self, si: usize, ti: usize) {
        let (a, b) = (self.slots[si].model.len(), self.slots[ti].model.len());
        let mut s = sim();
        if a <= b {
            s.probe(Probe::SetSmallerDrivesLarger);
        } else {
            s.probe(Probe::SetLargerFirst);
        }
    }

    fn op_pred(&mut self, si: usize, ti: usize, op: &Op) -> VResult {
        // (also of a set with itself: is_subset/is_superset/== are true, is_disjoint is true only for the empty set)
        let which = if op.k == Kd::EqSlots { 3 } else { op.a.rem_euclid(4) };
        let fc = self.fctx(si, op);
        self.note_sizes(si, ti);
        let a = self.slots[si].set.as_ref().unwrap();
        let b = self.slots[ti].set.as_ref().unwrap();
        let out = self.ctx.call(op, || match which {
            0 => (a.is_subset(b), b.is_superset(a)),
            1 => (a.is_superset(b), b.is_subset(a)),
            2 => (a.is_disjoint(b), b.is_disjoint(a)),
            _ => (a == b, b == a),
        });
        let Some((x, y)) = self.settle(out, si, fc)? else { return Ok(()) };
        if !self.ctx.functional() {
            return Ok(());
        }
        let (ma, mb) = (ids_of(&self.slots[si].model), ids_of(&self.slots[ti].model));
        let want = match which {
            0 => ma.is_subset(&mb),
            1 => ma.is_superset(&mb),
            2 => ma.is_disjoint(&mb),
            _ => ma == mb,
        };
        if x != want || y != want {
            vio!(self, "setalg/predicate", "predicate {which} on sets of {} and {} elements returned {x} (and {y} for the mirrored form), mathematically {want}", ma.len(), mb.len());
        }
        Ok(())
    }

    fn op_setop(&mut self, si: usize, ti: usize, op: &Op) -> VResult {
        // a: 0 union, 1 intersection, 2 difference, 3 symmetric_difference (iterators, driven by plan v)
        //    4..7 the same through the operators | & - ^ (a new set); both operands may be the same set
        let which = op.a.rem_euclid(8);
        let plan = IterPlan::from_v(&op.v);
        let fc = self.fctx(si, op);
        self.note_sizes(si, ti);
        let (ma, mb) = (ids_of(&self.slots[si].model), ids_of(&self.slots[ti].model));
        let want: BTreeSet<u32> = match which % 4 {
            0 => ma.union(&mb).copied().collect(),
            1 => ma.intersection(&mb).copied().collect(),
            2 => ma.difference(&mb).copied().collect(),
            _ => ma.symmetric_difference(&mb).copied().collect(),
        };
        let cap = ma.len() + mb.len();
        let a = self.slots[si].set.as_ref().unwrap();
        let b = self.slots[ti].set.as_ref().unwrap();
        if which < 4 {
            let out = self.ctx.call(op, || match which {
                0 => drive_alg(a.union(b).map(|k| it(k)), &plan, cap),
                1 => drive_alg(a.intersection(b).map(|k| it(k)), &plan, cap),
                2 => drive_alg(a.difference(b).map(|k| it(k)), &plan, cap),
                _ => drive_alg(a.symmetric_difference(b).map(|k| it(k)), &plan, cap),
            });
            let Some(log) = self.settle(out, si, fc)? else { return Ok(()) };
            if !self.ctx.functional() {
                return Ok(());
            }
            let got: Vec<u32> = log.items.iter().map(|x| x.0).collect();
            let gs: BTreeSet<u32> = got.iter().copied().collect();
            if gs.len() != got.len() {
                vio!(self, "setalg/duplicate", "set iterator {which} yielded an element twice ({} items, {} distinct)", got.len(), gs.len());
            }
            if gs != want {
                vio!(self, "setalg/iter", "set iterator {which} over sets of {} and {} elements yielded {} elements, mathematically {}", ma.len(), mb.len(), gs.len(), want.len());
            }
            // every yielded reference is an element of one of the two sets
            for x in &log.items {
                if !self.slots[si].model.contains(&(x.0, x.1)) && !self.slots[ti].model.contains(&(x.0, x.1)) {
                    vio!(self, "setalg/iter", "set iterator {which} yielded ({}, serial {}) which is in neither set", x.0, x.1);
                }
            }
            // size_hint bounds at every step
            if !log.folded {
                for (step, h) in log.hints.iter().enumerate() {
                    let remaining = got.len().saturating_sub(step);
                    if h.0 > remaining || h.1.map_or(false, |u| u < remaining) {
                        vio!(self, "setalg/size_hint", "set iterator {which}: size_hint {:?} after {step} items but {remaining} remain", h);
                    }
                }
            } else if let Some(h) = log.hints.last() {
                let consumed = log.hints.len() - 1;
                let remaining = got.len().saturating_sub(consumed);
                if h.0 > remaining || h.1.map_or(false, |u| u < remaining) {
                    vio!(self, "setalg/size_hint", "set iterator {which}: size_hint {:?} after {consumed} items but {remaining} remain", h);
                }
            }
            if let Some(c) = &log.cloned {
                let consumed = plan.n_next.min(got.len());
                let rest: BTreeSet<u32> = got[consumed..].iter().copied().collect();
                let cs: BTreeSet<u32> = c.iter().map(|x| x.0).collect();
                if cs != rest || c.len() != rest.len() {
                    vio!(self, "setalg/clone", "a clone of set iterator {which} taken after {consumed} items yielded {} elements, {} remain", c.len(), rest.len());
                }
            }
        } else {
            let out = self.ctx.call(op, || {
                let r: SSet<K> = match which {
                    4 => a | b,
                    5 => a & b,
                    6 => a - b,
                    _ => a ^ b,
                };
                let v: Vec<SE> = r.iter().map(|k| (k.id(), k.serial())).collect();
                (v, r)
            });
            let Some((v, r)) = self.settle(out, si, fc)? else { return Ok(()) };
            drop(r);
            if !self.ctx.functional() {
                return Ok(());
            }
            let gs: BTreeSet<u32> = v.iter().map(|x| x.0).collect();
            if gs.len() != v.len() || gs != want {
                vio!(self, "setalg/operator", "operator form {which} produced {} elements ({} distinct), mathematically {}", v.len(), gs.len(), want.len());
            }
            if K::HAS_SERIAL && v.iter().any(|x| self.slots[si].model.contains(x) || self.slots[ti].model.contains(x)) {
                vio!(self, "setalg/operator", "operator form {which} shares an element instance with an operand");
            }
        }
        Ok(())
    }

    fn op_setop_assign(&mut self, si: usize, ti: usize, op: &Op) -> VResult {
        // a: 0 |=, 1 &=, 2 ^=, 3 -=
        if si == ti {
            return Ok(());
        }
        let which = op.a.rem_euclid(4);
        let mut fc = self.fctx(si, op);
        fc.fresh_ok = true;
        fc.multi = true;
        fc.allowed_ids = self.slots[ti].model.iter().map(|e| e.0).collect();
        self.note_sizes(si, ti);
        if which == 3 {
            let mut s = sim();
            if self.slots[ti].model.len() < self.slots[si].model.len() {
                s.probe(Probe::SubAssignRemovePath);
            } else {
                s.probe(Probe::SubAssignRetainPath);
            }
        }
        let (ma, mb) = (ids_of(&self.slots[si].model), ids_of(&self.slots[ti].model));
        let want: BTreeSet<u32> = match which {
            0 => ma.union(&mb).copied().collect(),
            1 => ma.intersection(&mb).copied().collect(),
            2 => ma.symmetric_difference(&mb).copied().collect(),
            _ => ma.difference(&mb).copied().collect(),
        };
        let rhs_model = self.slots[ti].model.clone();
        let (a, b) = if si < ti {
            let (l, r) = self.slots.split_at_mut(ti);
            (&mut l[si], &r[0])
        } else {
            let (l, r) = self.slots.split_at_mut(si);
            (&mut r[0], &l[ti])
        };
        let lhs = a.set.as_mut().unwrap();
        let rhs = b.set.as_ref().unwrap();
        let out = self.ctx.call(op, || match which {
            0 => *lhs |= rhs,
            1 => *lhs &= rhs,
            2 => *lhs ^= rhs,
            _ => *lhs -= rhs,
        });
        let Some(()) = self.settle(out, si, fc)? else { return Ok(()) };
        let act = self.actual(si);
        if !self.ctx.functional() {
            return Ok(());
        }
        let gs: BTreeSet<u32> = act.iter().map(|x| x.0 .0).collect();
        if gs.len() != act.len() || gs != want {
            vio!(self, "setalg/assign", "assigning operator {which} left {} elements ({} distinct), mathematically {}", act.len(), gs.len(), want.len());
        }
        let old = self.slots[si].model.clone();
        // elements that stay keep their instance; new ones are fresh clones; the right-hand side is untouched
        for (e, _) in &act {
            match old.iter().find(|o| o.0 == e.0) {
                Some(o) if K::HAS_SERIAL && o.1 != e.1 => vio!(self, "setalg/assign", "assigning operator {which} replaced the stored instance of id {}", e.0),
                None if K::HAS_SERIAL && rhs_model.iter().any(|r| r.1 == e.1) => vio!(self, "setalg/assign", "assigning operator {which} shares an instance with the right-hand side"),
                _ => {}
            }
        }
        let gone: Vec<SE> = old.iter().filter(|o| !act.iter().any(|(e, _)| e.0 == o.0)).copied().collect();
        self.slots[si].model = act.into_iter().map(|x| x.0).collect();
        self.dropped_check(&gone, "assigning set operator")?;
        let rb = self.actual(ti);
        let mut x: Vec<SE> = rb.iter().map(|x| x.0).collect();
        x.sort();
        let mut y = rhs_model;
        y.sort();
        if x != y {
            vio!(self, "setalg/assign", "assigning operator {which} changed its right-hand side");
        }
        Ok(())
    }

    fn op_fill_no_alloc(&mut self, si: usize, op: &Op) -> VResult {
        let (room, len) = {
            let s = self.set(si);
            ((s.capacity() - s.len()).min(4096), s.len())
        };
        let mut next = op.a as u32 % K::UNIVERSE;
        let mut done = 0;
        let mut guard = 0u32;
        while done < room && guard < K::UNIVERSE.min(1 << 17) {
            guard += 1;
            let id = next;
            next = (next + 1) % K::UNIVERSE;
            if self.has(si, id).is_some() {
                continue;
            }
            let k = K::make(id);
            let ks = k.serial();
            let mut fc = self.fctx(si, op);
            fc.allowed_ids = vec![id];
            fc.arg_serials = vec![ks];
            let s = self.slots[si].set.as_mut().unwrap();
            let out = self.ctx.call(op, || s.insert(k));
            let Some(newly) = self.settle(out, si, fc)? else { return Ok(()) };
            if !self.ctx.functional() {
                done += 1;
                continue;
            }
            if !newly {
                vio!(self, "ret/Insert", "insert({id}) of an absent id returned false");
            }
            self.slots[si].model.push((id, ks));
            if self.ctx.last_alloc_calls != 0 {
                vio!(self, "cap/alloc-with-room", "insert number {} of {room} into spare capacity (len {len}) called the allocator", done + 1);
            }
            done += 1;
        }
        if done == room && room > 0 {
            sim().probe(Probe::InsertAtFullLoad);
        }
        Ok(())
    }
}

impl<K: KeyT> World for SetWorld<K> {
    fn exec(&mut self, idx: usize, op: &Op) -> Result<(), Violation> {
        self.exec_op(idx, op)
    }
    fn ctx(&mut self) -> &mut RunCtx {
        &mut self.ctx
    }
    fn view(&self) -> WorldView {
        WorldView {
            slots: self
                .slots
                .iter()
                .enumerate()
                .map(|(i, s)| {
                    let sh = self.shape(i);
                    let t = s.set.as_ref().unwrap();
                    SlotView { ids: s.model.iter().map(|e| e.0).collect(), len: t.len(), cap: t.capacity(), buckets: sh.buckets, growth_left: sh.growth_left, deleted: sh.deleted, singleton: sh.singleton, width: sh.width }
                })
                .collect(),
            universe: K::UNIVERSE,
        }
    }
    fn finish(&mut self) -> Result<(), Violation> {
        self.ctx.op_index = usize::MAX;
        self.ctx.op_kind = "Finish".into();
        let nop = Op::new(Kd::Nop);
        for i in 0..self.slots.len() {
            if self.ctx.functional() {
                self.sweep(i)?;
            }
            let t = self.slots[i].set.take();
            match self.ctx.call(&nop, move || drop(t)) {
                Out::Ok(()) => {}
                _ => return Err(self.ctx.violation("panic/Drop", "dropping the set panicked".into())),
            }
        }
        self.ctx.drain_callback_violations()?;
        let s = sim();
        let findings = crate::alloc::audit(&s);
        let live = s.live_serials as i64 + s.ms_live_total();
        let nblocks = s.blocks.len() as u64;
        let bytes = crate::alloc::live_bytes(&s);
        let leaked_live = self.ctx.leaked_serials.iter().filter(|&&x| s.serial_state[x as usize] == 1).count() as i64 + self.ctx.leaked_ms;
        drop(s);
        if let Some((c, d)) = findings.into_iter().next() {
            return Err(self.ctx.violation(&c, d));
        }
        if self.ctx.drop_fault_fired {
            return Ok(());
        }
        if live != leaked_live {
            return Err(self.ctx.violation("ledger/leak", format!("{live} elements still live after everything was dropped, {leaked_live} of them deliberately leaked")));
        }
        if nblocks != self.ctx.leaked_blocks || bytes != self.ctx.leaked_bytes {
            return Err(self.ctx.violation("alloc/leak", format!("{nblocks} blocks ({bytes} bytes) still allocated after everything was dropped, {} deliberately leaked", self.ctx.leaked_blocks)));
        }
        Ok(())
    }
}
