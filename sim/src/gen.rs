//! Seeded, swarm-style workload generation. The generator sees the reference models and the
//! table shapes (never addresses) and produces explicit primitive operations, so that the recorded
//! scenario replays exactly.

use crate::plan::Plan;
use crate::rng::Rng;
use crate::scenario::{Config, Op, Kd};
use crate::state::{EqMode, Refuse};
use crate::world::{SlotView, WorldView};
use std::collections::VecDeque;

#[derive(Clone, Copy, Debug, PartialEq, Eq)]
pub enum Family {
    Map,
    Set,
    Table,
}

pub struct Gen {
    pub family: Family,
    pub universe: u32,
    pub weights: Vec<(Kd, u32)>,
    pub pending: VecDeque<Op>,
    pub n_slots: usize,
    /// one in `macro_den` operations starts a macro-operation (0 = never)
    pub macro_den: u64,
    /// allow mem::forget of iterators / drains (F10)
    pub allow_forget: bool,
    /// allow lying size hints on extend sources (F13)
    pub lying_hints: bool,
    /// probability (percent) that a retain/extract predicate toggles values
    pub toggle_pct: u64,
    /// allow allocator refusal modes on try_reserve (F8)
    pub refusals: bool,
    /// entry API flavours to draw from
    pub entry_apis: i64,
    /// huge try_reserve amounts
    pub huge_reserve: bool,
    pub fresh_counter: u32,
    /// largest lying size hint (kept small for big elements so tables stay cheap to audit)
    pub max_hint: i64,
    /// C18: never emit capacity-dependent composite operations (the scenario must mean the same under both group widths)
    pub no_fill: bool,
    /// percentage of operations that get a random callback panic attached (C03: exits under unwinding)
    pub fault_pct: u64,
    /// WithCapacity may ask for a table of 131 072 buckets
    pub big_tables: bool,
    /// churn mode: a phase of removals only, until the collection is empty
    pub churn_draining: bool,
    /// slot 0 hashes with a `Bands` plan: the bands recipe is then the macro of choice
    pub bands_plan: bool,
    /// C13 churn mode: (bound on live size, removal order 0 random / 1 FIFO / 2 LIFO / 3 middle)
    pub churn: Option<(usize, u8)>,
    /// insertion order of live ids per slot (churn mode)
    pub order: Vec<Vec<u32>>,
}

pub struct RunSpec {
    pub world: String,
    pub cfg: Config,
    pub gen: Gen,
    pub n_ops: usize,
}

fn boundary_amount(rng: &mut Rng, cap: usize) -> i64 {
    // around 7/8 * 2^k boundaries and small values
    match rng.below(4) {
        0 => rng.below(8) as i64,
        // bounded so that repeated reservations cannot snowball into giant tables
        1 => rng.below((2 * cap as u64 + 5).min(300)) as i64,
        2 => {
            let k = rng.range(2, 9) as u32;
            let b = (1i64 << k) * 7 / 8;
            (b + rng.range(-2, 2)).max(0)
        }
        _ => {
            let k = rng.range(2, 9) as u32;
            ((1i64 << k) + rng.range(-2, 2)).max(0)
        }
    }
}

impl Gen {
    fn slot(&self, rng: &mut Rng) -> usize {
        // slot 0 is used most so that it accumulates history
        match rng.below(10) {
            0..=5 => 0,
            6..=8 => 1 % self.n_slots,
            _ => 2 % self.n_slots,
        }
    }

    fn key(&self, rng: &mut Rng, sv: &SlotView, present_pct: u64) -> u32 {
        if !sv.ids.is_empty() && rng.below(100) < present_pct {
            *rng.pick(&sv.ids)
        } else {
            rng.below(self.universe as u64) as u32
        }
    }

    fn absent_key(&mut self, rng: &mut Rng, sv: &SlotView) -> u32 {
        for _ in 0..8 {
            let k = rng.below(self.universe as u64) as u32;
            if !sv.ids.contains(&k) {
                return k;
            }
        }
        (0..self.universe).find(|k| !sv.ids.contains(k)).unwrap_or(0)
    }

    fn subset(&self, rng: &mut Rng, sv: &SlotView) -> Vec<i64> {
        let p = *rng.pick(&[0u64, 10, 25, 50, 50, 75, 90, 100]);
        let mut ids: Vec<u32> = sv.ids.clone();
        ids.sort();
        ids.dedup();
        ids.into_iter().filter(|_| rng.below(100) < p).map(|x| x as i64).collect()
    }

    fn iter_plan(&self, rng: &mut Rng, len: usize, allow_forget: bool) -> Vec<i64> {
        let n_next = match rng.below(5) {
            0 => 0,
            1 => len as i64,
            2 => len as i64 + 1,
            _ => rng.below(len as u64 + 1) as i64,
        };
        let finish = loop {
            let f = *rng.pick(&[0i64, 0, 1, 1, 2, 3, 4, 5, 6, 7]);
            if f != 4 || allow_forget {
                break f;
            }
        };
        vec![n_next, rng.below(2) as i64, finish, rng.below(4) as i64]
    }

    fn entry_chain(&self, rng: &mut Rng, present: bool) -> Vec<i64> {
        let api = rng.below(self.entry_apis.max(1) as u64) as i64;
        let mut v = vec![api];
        if api == 6 {
            v.push(rng.below(3) as i64);
            return v;
        }
        const ALL: [i64; 32] = [1, 2, 3, 4, 5, 6, 7, 8, 9, 10, 11, 12, 13, 14, 15, 16, 17, 18, 20, 21, 22, 23, 24, 25, 26, 30, 31, 32, 33, 34, 35, 0];
        // 0 = E, 1 = O, 2 = V, 3 = done
        let mut st = 0u8;
        let mut occ = present;
        let n = rng.range(1, 3);
        for _ in 0..n {
            if st == 3 {
                break;
            }
            let cands: Vec<i64> = ALL.iter().copied().filter(|&m| crate::mapw_entry::method_ok(api, st, m)).collect();
            // "match" (9) is weighted up so that the variant-specific methods are reached
            let m = if st == 0 && rng.below(3) == 0 { 9 } else if cands.is_empty() || rng.below(12) == 0 { 0 } else { *rng.pick(&cands) };
            v.push(m);
            match m {
                1 => {
                    st = 1;
                    occ = true;
                }
                2 | 3 | 4 | 26 => st = 3,
                8 => occ = false,
                9 => st = if occ { 1 } else { 2 },
                13 | 15 | 16 | 31 | 34 => st = 3,
                17 => st = 0,
                18 => {
                    st = 0;
                    occ = false;
                }
                21 | 22 | 24 | 25 | 0 => st = 3,
                23 => {
                    st = 1;
                    occ = true;
                }
                _ => {}
            }
        }
        v
    }

    /// Queues the removal burst that saturates a packed table with tombstones, followed by inserts of
    /// fresh keys (the first of which must rehash in place when growth_left is 0).
    fn macro_saturate(&mut self, rng: &mut Rng, s: usize, sv: &SlotView) {
        let full_cap = if sv.buckets < 8 { sv.buckets.saturating_sub(1) } else { sv.buckets / 8 * 7 };
        let target = (full_cap / 2).saturating_sub(1 + rng.below(3) as usize);
        if sv.len <= target || sv.ids.is_empty() {
            // first fill to capacity, saturate on a later call
            if self.no_fill {
                for _ in 0..(sv.cap - sv.len).min(512) {
                    let k = self.universe + self.fresh_counter;
                    self.fresh_counter += 1;
                    self.pending.push_back(Op::new(if self.family == Family::Table { Kd::TInsertUnique } else { Kd::Insert }).s(s).a(k as i64).b(1));
                }
            } else {
                self.pending.push_back(Op::new(Kd::FillNoAlloc).s(s).a(0));
            }
            return;
        }
        let mut ids = sv.ids.clone();
        ids.sort();
        ids.dedup();
        rng.shuffle(&mut ids);
        for &id in ids.iter().take(sv.len - target) {
            self.pending.push_back(Op::new(if self.family == Family::Table { Kd::TFindEntry } else { Kd::Remove }).s(s).a(id as i64).b(1));
        }
        for _ in 0..rng.range(1, 3) {
            self.push_trigger(rng, s);
        }
    }

    /// Queues one insertion of a fresh key (id = universe + counter) through a random insertion path.
    fn push_trigger(&mut self, rng: &mut Rng, s: usize) {
        let k = self.universe + self.fresh_counter;
        self.fresh_counter += 1;
        let val = rng.below(1 << 20) as i64;
        // the insertion that must rehash in place goes through every insertion path, not only insert()
        let has = |kd: Kd| self.weights.iter().any(|w| w.0 == kd);
        let ins = match self.family {
            Family::Table => match rng.below(3) {
                0 if has(Kd::TEntry) => Op::new(Kd::TEntry).s(s).a(k as i64).b(val).c(*rng.pick(&[0i64, 1, 2, 3, 5])),
                _ => Op::new(Kd::TInsertUnique).s(s).a(k as i64).b(val),
            },
            Family::Set => match rng.below(5) {
                0 if has(Kd::Replace) => Op::new(Kd::Replace).s(s).a(k as i64),
                1 if has(Kd::GetOrInsert) => Op::new(Kd::GetOrInsert).s(s).a(k as i64),
                2 if has(Kd::GetOrInsertWith) => Op::new(Kd::GetOrInsertWith).s(s).a(k as i64),
                3 if has(Kd::Entry) => Op::new(Kd::Entry).s(s).a(k as i64).c(*rng.pick(&[0i64, 1, 3])),
                _ => Op::new(Kd::Insert).s(s).a(k as i64).b(val),
            },
            Family::Map => match rng.below(4) {
                0 if has(Kd::TryInsert) => Op::new(Kd::TryInsert).s(s).a(k as i64).b(val),
                1 | 2 if has(Kd::Entry) => {
                    let api = rng.below(self.entry_apis.min(6).max(1) as u64) as i64;
                    let chain: Vec<i64> = match rng.below(4) {
                        0 => vec![api, 1],
                        1 => vec![api, 2],
                        2 => vec![api, 9, 22],
                        _ => vec![api, 3],
                    };
                    Op::new(Kd::Entry).s(s).a(k as i64).b(val).v(chain)
                }
                _ => Op::new(Kd::Insert).s(s).a(k as i64).b(val),
            },
        };
        let mut ins = ins;
        if self.fault_pct > 0 && rng.below(2) == 0 {
            // in runs that carry random faults, half of the insertions that rehash in place get a hasher panic
            ins.f = Some(crate::scenario::Fault { c: crate::state::Class::Hash, k: rng.range(2, 24) as u32 });
        }
        self.pending.push_back(ins);
    }

    /// Bands recipe: fill a fresh table band by band (ids band*1000+j share a home position under the
    /// `Bands` plan, so bands overflow into each other's home groups), remove whole bands or halves of
    /// them (tombstones around groups full of displaced live elements, growth_left exhausted), then
    /// insert fresh keys of random bands through every insertion path.
    fn macro_bands(&mut self, rng: &mut Rng, s: usize, width: usize) {
        let table = self.family == Family::Table;
        let ins = |id: i64, v: i64| if table { Op::new(Kd::TInsertUnique).s(s).a(id).b(v) } else { Op::new(Kd::Insert).s(s).a(id).b(v) };
        let rem = |id: i64| if table { Op::new(Kd::TFindEntry).s(s).a(id).b(1) } else { Op::new(Kd::Remove).s(s).a(id).b(1) };
        self.pending.push_back(Op::new(Kd::WithCapacity).s(s).a(0));
        // the canonical displaced-full-group layout: bands of 2 and 1.5 groups fill a table of four groups to
        // capacity, the never-used slots directly follow the second band; only that band is kept (displaced by
        // a whole group); the fresh key belongs to the band after it, so its first probe group is full of
        // displaced live elements and its insert slot is a never-used one (which makes the insertion reserve)
        let canonical = rng.below(3) == 0;
        let w = width.max(8);
        let target = if canonical { 7 * w / 2 } else { *rng.pick(&[14usize, 28, 28, 56, 56, 112]) };
        let nb = if canonical { 2 } else { rng.range(2, 5) as usize };
        let mut bands: Vec<Vec<i64>> = Vec::new();
        let mut total = 0usize;
        // half of the time band sizes are one or one and a half groups, so that a band's overflow exactly
        // fills the next band's home group with displaced elements
        let grouped = canonical || rng.below(2) == 0;
        for b in 0..nb {
            let want = if canonical { [2 * w, 3 * w / 2][b] } else if grouped { *rng.pick(&[8usize, 16, 24, 24, 32]) } else { rng.range(6, 30) as usize };
            let cnt = if b + 1 == nb { target.saturating_sub(total) } else { want.min(target.saturating_sub(total)) };
            let ids: Vec<i64> = (0..cnt).map(|j| (b * 1000 + j) as i64).collect();
            total += cnt;
            bands.push(ids);
        }
        for b in &bands {
            for &id in b {
                self.pending.push_back(ins(id, rng.below(1 << 20) as i64));
            }
        }
        let keep_one = if canonical { Some(1) } else if grouped { Some(rng.below(nb as u64) as usize) } else { None };
        for (bi, b) in bands.iter().enumerate() {
            let mode = match keep_one {
                Some(k) => if bi == k { 0 } else { 1 },
                None => rng.below(3),
            };
            match mode {
                0 => {}
                1 => {
                    for &id in b {
                        self.pending.push_back(rem(id));
                    }
                }
                _ => {
                    for &id in b {
                        if rng.below(2) == 0 {
                            self.pending.push_back(rem(id));
                        }
                    }
                }
            }
        }
        let save = self.universe;
        for _ in 0..rng.range(1, 3) {
            // reuse the insertion-path mix of the saturate macro with an id in a random band
            self.fresh_counter += 1;
            let band = match keep_one {
                Some(k) if canonical || rng.below(2) == 0 => (k as u64 + 1) % (nb as u64 + 1),
                _ => rng.below(nb as u64 + 1),
            };
            let id = (band * 1000 + 500 + self.fresh_counter as u64) as u32;
            self.universe = id - self.fresh_counter;
            let n0 = self.pending.len();
            self.fresh_counter -= 0;
            self.push_trigger(rng, s);
            debug_assert!(self.pending.len() > n0);
        }
        self.universe = save;
    }

    /// Build a packed run of consecutive ids, then remove elements from its middle.
    fn macro_cluster(&mut self, rng: &mut Rng, s: usize) {
        let start = rng.below(self.universe as u64) as i64;
        let n = rng.range(4, 40);
        for i in 0..n {
            let id = (start + i) % self.universe as i64;
            let ins = match self.family {
                Family::Table => Op::new(Kd::TInsertUnique).s(s).a(id).b(i),
                _ => Op::new(Kd::Insert).s(s).a(id).b(rng.below(1 << 20) as i64),
            };
            self.pending.push_back(ins);
        }
        for _ in 0..rng.range(1, n.min(12)) {
            let id = (start + rng.below(n as u64) as i64) % self.universe as i64;
            self.pending.push_back(Op::new(if self.family == Family::Table { Kd::TFindEntry } else { Kd::Remove }).s(s).a(id).b(1));
        }
    }

    /// C13: insert/remove/lookup interleavings with bounded live size and no explicit reservation.
    fn next_churn(&mut self, rng: &mut Rng, view: &WorldView, n: usize, order: u8) -> Op {
        let s = 0usize;
        let sv = &view.slots[s];
        if self.order.is_empty() {
            self.order = vec![Vec::new(); self.n_slots];
        }
        // keep the insertion-order list in step with the model
        self.order[s].retain(|id| sv.ids.contains(id));
        let table = self.family == Family::Table;
        let r = rng.below(100);
        // now and then the collection is emptied completely by individual removals before it is refilled
        if sv.len == 0 {
            self.churn_draining = false;
        } else if !self.churn_draining && sv.len * 2 >= n && rng.below(150) == 0 {
            self.churn_draining = true;
        }
        let want_insert = !self.churn_draining && sv.len < n && (sv.len == 0 || r < 50);
        if want_insert {
            // fresh ids march through the position space; sometimes an old id comes back
            let id = if rng.below(8) == 0 { rng.below(self.universe as u64) as u32 } else {
                self.fresh_counter += 1;
                self.universe + self.fresh_counter
            };
            if !sv.ids.contains(&id) {
                self.order[s].push(id);
            }
            return Op::new(if table { Kd::TInsertUnique } else { Kd::Insert }).s(s).a(id as i64).b(rng.below(1 << 20) as i64);
        }
        if (r < 85 || self.churn_draining) && !self.order[s].is_empty() {
            let l = self.order[s].len();
            let idx = match order {
                1 => 0,
                2 => l - 1,
                3 => l / 2,
                _ => rng.below(l as u64) as usize,
            };
            let id = self.order[s].remove(idx);
            return Op::new(if table { Kd::TFindEntry } else { Kd::Remove }).s(s).a(id as i64).b(1);
        }
        // lookups, half of them of absent keys; now and then a value is replaced in place (live size unchanged)
        let id = if rng.below(2) == 0 { self.key(rng, sv, 100) } else { self.universe + self.fresh_counter + 1 + rng.below(1000) as u32 };
        if !table && rng.below(5) == 0 {
            // and_replace_entry_with(Some) / match + replace_entry_with(Some)
            let chain = if rng.below(2) == 0 { vec![0, 7] } else { vec![0, 9, 17] };
            return Op::new(Kd::Entry).s(s).a(self.key(rng, sv, 100) as i64).b(rng.below(1 << 20) as i64).v(chain);
        }
        Op::new(if table { *rng.pick(&[Kd::TFind, Kd::TIterHash, Kd::TIterHashMut]) } else { *rng.pick(&[Kd::Get, Kd::ContainsKey, Kd::GetView]) }).s(s).a(id as i64).c(7)
    }

    pub fn next(&mut self, rng: &mut Rng, view: &WorldView) -> Op {
        let mut op = self.next_inner(rng, view);
        if self.fault_pct > 0 && rng.below(100) < self.fault_pct {
            use crate::state::Class;
            op.f = Some(crate::scenario::Fault { c: *rng.pick(&[Class::Pred, Class::Pred, Class::Clone, Class::Hash, Class::Eq, Class::Iter, Class::Drop, Class::Drop]), k: rng.range(1, 4) as u32 });
        }
        op
    }

    fn next_inner(&mut self, rng: &mut Rng, view: &WorldView) -> Op {
        if let Some(op) = self.pending.pop_front() {
            return op;
        }
        if let Some((n, order)) = self.churn {
            return self.next_churn(rng, view, n, order);
        }
        if self.macro_den > 0 && rng.below(self.macro_den) == 0 {
            let s = self.slot(rng);
            let sv = view.slots[s].clone();
            match if self.bands_plan && rng.below(2) == 0 { 4 } else { rng.below(5) } {
                4 => self.macro_bands(rng, s, sv.width),
                0 if !self.no_fill => self.pending.push_back(Op::new(Kd::FillNoAlloc).s(s).a(rng.below(self.universe as u64) as i64)),
                0 => self.macro_cluster(rng, s),
                1 | 2 => self.macro_saturate(rng, s, &sv),
                _ => self.macro_cluster(rng, s),
            }
            if let Some(op) = self.pending.pop_front() {
                return op;
            }
        }
        let w: Vec<u32> = self.weights.iter().map(|x| x.1).collect();
        let kind = self.weights[rng.weighted(&w)].0;
        let s = self.slot(rng);
        let sv = &view.slots[s];
        let val = if rng.below(30) == 0 { crate::elem::NAN_VAL as i64 } else { rng.below(1 << 20) as i64 };
        match kind {
            Kd::Insert | Kd::TryInsert => Op::new(kind).s(s).a(self.key(rng, sv, 35) as i64).b(val).c((rng.below(8) == 0) as i64),
            Kd::Get | Kd::GetMut | Kd::GetView | Kd::ContainsKey | Kd::GetKeyValue | Kd::GetKeyValueMut => Op::new(kind).s(s).a(self.key(rng, sv, 65) as i64).b(val).c((rng.below(4) == 0) as i64),
            Kd::Remove | Kd::RemoveEntry | Kd::RemoveView | Kd::Take => Op::new(kind).s(s).a(self.key(rng, sv, 75) as i64),
            Kd::Replace | Kd::GetOrInsert => Op::new(kind).s(s).a(self.key(rng, sv, 50) as i64),
            Kd::GetOrInsertWith => Op::new(kind).s(s).a(self.key(rng, sv, 50) as i64).b(if rng.below(6) == 0 { 1 } else { 0 }),
            Kd::Clear | Kd::ShrinkToFit => Op::new(kind).s(s),
            Kd::Reserve => Op::new(kind).s(s).a(boundary_amount(rng, sv.cap)),
            Kd::ShrinkTo => Op::new(kind).s(s).a(boundary_amount(rng, sv.cap)),
            Kd::TryReserve => {
                let mut op = Op::new(kind).s(s);
                let huge = self.huge_reserve && rng.below(3) == 0;
                let (j1, j2) = (rng.range(-1, 1), rng.range(-2, 2));
                op.a = if huge {
                    *rng.pick(&[i64::MAX, -1i64, i64::MAX / 2, (u64::MAX / 16) as i64, (u64::MAX / 24) as i64 + j1, (u64::MAX / 8) as i64, (u64::MAX / 8) as i64 - 1, 1 << 40, 1 << 33, (1i64 << 58) + j2, (1i64 << 59) + j2, (1i64 << 60) + j2, (1i64 << 61) + j2, (1i64 << 62) + j2, 1i64 << 60, 1i64 << 61])
                } else {
                    boundary_amount(rng, sv.cap)
                };
                if self.refusals {
                    op.r = if huge {
                        *rng.pick(&[Refuse::All, Refuse::All, Refuse::Above(1 << 16)])
                    } else {
                        *rng.pick(&[Refuse::Never, Refuse::Nth(1), Refuse::Nth(1), Refuse::Nth(2), Refuse::All, Refuse::Above(64), Refuse::Above(1024)])
                    };
                } else if huge {
                    op.r = Refuse::All;
                }
                if self.family == Family::Table && self.huge_reserve && rng.below(8) == 0 {
                    // a fresh table of a giant element type (c = 9): a = amount, b = which type
                    op.c = 9;
                    op.a = rng.below(64) as i64;
                    op.b = rng.below(8) as i64;
                    op.r = Refuse::All;
                }
                op
            }
            Kd::Extend | Kd::ExtendRef | Kd::FromIter => {
                let n = if self.universe >= 200 { *rng.pick(&[3u64, 8, 30, 80, 200]) } else { *rng.pick(&[0u64, 1, 2, 3, 5, 8, 13, 30]) };
                let mut v = Vec::new();
                if self.big_tables && kind == Kd::Extend && sv.len < 60_000 && rng.below(12) == 0 {
                    // more than 2^16 elements at once (consecutive ids beyond the run's universe): counters and
                    // indices beyond 16 bits
                    let start = 1_000_000 + rng.below(1_000_000) as i64;
                    let m = 66_000 + rng.below(6_000) as i64;
                    for i in 0..m {
                        v.push(start + i);
                        v.push(i & 0xfffff);
                    }
                    return Op::new(kind).s(s).a(-1).v(v);
                }
                for _ in 0..n {
                    v.push(self.key(rng, sv, 30) as i64);
                    v.push(rng.below(1 << 20) as i64);
                }
                let hint = if self.lying_hints && rng.below(3) == 0 { if rng.below(25) == 0 { self.max_hint } else { *rng.pick(&[0i64, 1, 7, 100, 1000, 3000]) } } else { -1 };
                if kind == Kd::ExtendRef {
                    // by-reference source: often short enough to fit the spare room, often with a repeated key
                    let room = sv.cap.saturating_sub(sv.len);
                    if room > 0 && rng.below(2) == 0 {
                        v.truncate(2 * room.min(v.len() / 2));
                    }
                    let n = v.len() / 2;
                    if n >= 2 && rng.below(2) == 0 {
                        v[2 * (n - 1)] = v[0];
                    }
                    return Op::new(kind).s(s).a(-1).c(rng.below(2) as i64).v(v);
                }
                if kind == Kd::FromIter && rng.below(2) == 0 {
                    // From<[T; N]>: a short array, often with a repeated key
                    let n = *rng.pick(&[0usize, 1, 2, 3, 4, 5, 8]);
                    v.truncate(2 * n);
                    while v.len() < 2 * n {
                        v.push(self.key(rng, sv, 30) as i64);
                        v.push(rng.below(1 << 20) as i64);
                    }
                    if n >= 2 && rng.below(2) == 0 {
                        v[2 * (n - 1)] = v[0];
                    }
                    return Op::new(kind).s(s).a(-1).b(1).v(v);
                }
                Op::new(kind).s(s).a(hint).v(v)
            }
            Kd::Retain => Op::new(kind).s(s).b((rng.below(100) < self.toggle_pct) as i64).v(self.subset(rng, sv)),
            Kd::ExtractIf => {
                let a = if rng.below(5) < 3 { -1 } else { rng.below(sv.len as u64 + 1) as i64 };
                let b = (self.allow_forget && rng.below(4) == 0) as i64;
                Op::new(kind).s(s).a(a).b(b).c((rng.below(100) < self.toggle_pct) as i64).v(self.subset(rng, sv))
            }
            Kd::Drain => {
                let a = if rng.below(5) < 2 { -1 } else { rng.below(sv.len as u64 + 2) as i64 };
                let b = if self.allow_forget && rng.below(4) == 0 { 1 } else if rng.below(4) == 0 { 2 } else { 0 };
                Op::new(kind).s(s).a(a).b(b)
            }
            Kd::Iter | Kd::SetIter => {
                let which = if rng.below(12) == 0 { rng.range(7, 11) } else { rng.range(0, 6) };
                Op::new(kind).s(s).a(which).v(self.iter_plan(rng, sv.len, self.allow_forget))
            }
            Kd::IntoIter => {
                let which = if rng.below(12) == 0 { rng.range(3, 5) } else { rng.range(0, 2) };
                Op::new(kind).s(s).a(which).v(self.iter_plan(rng, sv.len, self.allow_forget))
            }
            Kd::CloneTo | Kd::CloneFrom | Kd::EqSlots | Kd::SetPred | Kd::SetOp | Kd::SetOpAssign => {
                let mut t = (s + 1 + rng.below(self.n_slots as u64 - 1) as usize) % self.n_slots;
                if kind == Kd::EqSlots && rng.below(5) == 0 {
                    // a collection compared with itself
                    t = s;
                }
                if matches!(kind, Kd::SetPred | Kd::SetOp) && rng.below(8) == 0 {
                    // set predicates and the non-assigning operators with the same set on both sides
                    t = s;
                }
                Op::new(kind).s(s).t(t).a(rng.below(16) as i64).v(self.iter_plan(rng, sv.len, false))
            }
            Kd::Entry => {
                let kid = self.key(rng, sv, 50);
                let present = sv.ids.contains(&kid);
                if self.family == Family::Set {
                    return Op::new(kind).s(s).a(kid as i64).c(rng.below(6) as i64);
                }
                let chain = self.entry_chain(rng, present);
                // raw entries: a quarter of the vacant ones insert another key than the one looked up (c = 2)
                let c = if (2..=4).contains(&chain[0]) && !present && rng.below(4) == 0 { 2 } else { (self.allow_forget && rng.below(5) == 0) as i64 };
                Op::new(kind).s(s).a(kid as i64).b(val).c(c).v(chain)
            }
            Kd::GetMany | Kd::GetManyKv | Kd::TGetMany => {
                // N = 0..4 as the property quantifies, now and then 5 or 6
                let n = if rng.below(8) == 0 { 5 + rng.below(2) } else { rng.below(5) };
                let mut v: Vec<i64> = (0..n).map(|_| self.key(rng, sv, 70) as i64).collect();
                if n >= 2 && rng.below(4) == 0 {
                    // a repeated key at any two positions (also behind an absent key)
                    let j = 1 + rng.below(n - 1) as usize;
                    let i = rng.below(j as u64) as usize;
                    v[j] = v[i];
                    if i > 0 && rng.below(2) == 0 {
                        v[0] = self.universe as i64 + 7;
                    }
                }
                Op::new(kind).s(s).b(val).c(rng.below(4) as i64).v(v)
            }
            Kd::New | Kd::DropSlot => Op::new(kind).s(s),
            // (rarely a table of 131 072 buckets: code paths that depend on how much of the table is still ahead)
            Kd::WithCapacity => Op::new(kind).s(s).a(if self.big_tables && rng.below(40) == 0 { 100_000 } else { *rng.pick(&[0i64, 0, 1, 3, 4, 7, 8, 14, 15, 28, 29, 56, 57, 100]) }),
            Kd::FillNoAlloc => Op::new(kind).s(s).a(rng.below(self.universe as u64) as i64),
            // ---- table operations
            Kd::TFind | Kd::TFindMut | Kd::TIterHash | Kd::TIterHashMut => Op::new(kind).s(s).a(self.key(rng, sv, 65) as i64).b(val).c(rng.below(8) as i64),
            Kd::TFindEntry => Op::new(kind).s(s).a(self.key(rng, sv, 75) as i64).b(rng.below(4) as i64).c(val),
            Kd::TEntry => Op::new(kind).s(s).a(self.key(rng, sv, 50) as i64).b(val).c(rng.below(7) as i64),
            Kd::TInsertUnique => {
                // duplicates of already stored ids are allowed in a HashTable
                Op::new(kind).s(s).a(self.key(rng, sv, 25) as i64).b(val)
            }
            Kd::TRemoveReinsert => Op::new(kind).s(s).a(self.key(rng, sv, 80) as i64).b(val).c(rng.below(3) as i64),
            Kd::Par => {
                let nd = *rng.pick(&[4usize, 12, 40, 120]);
                Op::new(kind).s(s).t(if rng.below(6) == 0 { s } else { (s + 1) % self.n_slots }).a(if rng.below(9) == 0 { 1000 + rng.below(2) as i64 } else { rng.below(48) as i64 }).b(rng.below(sv.len as u64 + 2) as i64).c(rng.below(1024) as i64).v((0..nd).map(|_| rng.below(1 << 16) as i64).collect())
            }
            Kd::SerdeRoundTrip => Op::new(kind).s(s).a(rng.below(4) as i64).b(rng.below(400) as i64).c(rng.below(7) as i64),
            Kd::SerdeStream => {
                let n = rng.below(12);
                let mut v = Vec::new();
                for _ in 0..n {
                    v.push(self.key(rng, sv, 40) as i64);
                    v.push(rng.below(1 << 20) as i64);
                }
                let hint = *rng.pick(&[-1i64, -2, -2, 0, 3, 4096, 4097, 1 << 20, 1 << 40, i64::MAX, -3]);
                let err_at = if rng.below(3) == 0 { rng.below(n + 1) as i64 } else { -1 };
                Op::new(kind).s(s).a(hint).b(err_at).c(rng.below(4) as i64).v(v)
            }
            _ => {
                let _ = self.absent_key(rng, sv);
                Op::new(Kd::Nop)
            }
        }
    }
}

pub fn base_cfg(rng: &mut Rng, n_slots: usize) -> Config {
    // the same plan for all slots in half the runs, independent plans otherwise
    let first = Plan::random(rng);
    let plans = (0..n_slots).map(|i| if i == 0 || rng.below(2) == 0 { first.clone() } else { Plan::random(rng) }).collect();
    Config { plans, eq_mode: EqMode::Lawful, byz_seed: rng.next(), exact_align: rng.below(4) != 0, callback_cap: 0, functional: 1, sweep_below: 48, churn_bound: 0, group_monitor: false }
}

pub const MAP_CORE: &[(Kd, u32)] = &[
    (Kd::Insert, 30),
    (Kd::TryInsert, 4),
    (Kd::Get, 6),
    (Kd::GetMut, 3),
    (Kd::GetView, 3),
    (Kd::ContainsKey, 3),
    (Kd::GetKeyValue, 2),
    (Kd::GetKeyValueMut, 2),
    (Kd::Remove, 16),
    (Kd::RemoveEntry, 4),
    (Kd::RemoveView, 2),
    (Kd::Entry, 8),
    (Kd::Extend, 3),
    (Kd::ExtendRef, 2),
    (Kd::FromIter, 1),
    (Kd::Clear, 1),
    (Kd::Reserve, 2),
    (Kd::ShrinkTo, 2),
    (Kd::ShrinkToFit, 1),
    (Kd::Retain, 2),
    (Kd::WithCapacity, 1),
    (Kd::New, 1),
];

/// Swarm: keeps each weighted kind with probability 3/4 (always keeps the first two).
pub fn swarm(rng: &mut Rng, w: &[(Kd, u32)]) -> Vec<(Kd, u32)> {
    let mut out: Vec<(Kd, u32)> = Vec::new();
    for (i, &(k, x)) in w.iter().enumerate() {
        if i < 2 || rng.below(4) != 0 {
            // vary the weight too
            let f = *rng.pick(&[1u32, 1, 2, 3]);
            out.push((k, x * f));
        }
    }
    out
}

pub fn universe_for(rng: &mut Rng, thorough: bool) -> u32 {
    if thorough {
        *rng.pick(&[4u32, 6, 12, 24, 40, 64, 100, 200, 500, 2048])
    } else {
        *rng.pick(&[4u32, 6, 12, 24, 40, 40, 64, 64, 100, 200])
    }
}
