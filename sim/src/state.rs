//! Process-global simulator state: element ledger, fault arming, callback counters,
//! violation log, probes and the run digest. One logical thread runs at a time (the rayon
//! bridge hands a baton around), so the mutex is never contended; it exists so that the baton
//! threads get a happens-before edge for free.

use crate::rng::{Digest, Rng};
use std::collections::BTreeMap;
use std::sync::{Mutex, MutexGuard};

/// Callback classes that can be made to panic (fault kinds F1..F7) or counted.
#[derive(Clone, Copy, Debug, PartialEq, Eq, PartialOrd, Ord, serde::Serialize, serde::Deserialize)]
pub enum Class {
    Hash = 0,
    Eq = 1,
    Clone = 2,
    Drop = 3,
    Pred = 4,
    Into = 5,
    Iter = 6,
    Consume = 7,
}
pub const NCLASS: usize = 8;
pub const ALL_CLASSES: [Class; NCLASS] = [
    Class::Hash,
    Class::Eq,
    Class::Clone,
    Class::Drop,
    Class::Pred,
    Class::Into,
    Class::Iter,
    Class::Consume,
];
impl Class {
    pub fn name(self) -> &'static str {
        match self {
            Class::Hash => "hash",
            Class::Eq => "eq",
            Class::Clone => "clone",
            Class::Drop => "drop",
            Class::Pred => "pred",
            Class::Into => "into",
            Class::Iter => "iter",
            Class::Consume => "consume",
        }
    }
}

/// Panic payload of an injected fault.
pub struct SimPanic(pub Class);
/// Panic payload used by the allocator seam for a request above the hard ceiling.
pub struct SimCeiling(pub usize);
/// Panic payload used when the per-operation callback cap is exceeded (divergence verdict).
pub struct SimDiverge(pub u64);

#[derive(Clone, Copy, Debug, PartialEq, Eq, serde::Serialize, serde::Deserialize)]
pub enum EqMode {
    Lawful,
    Random,
    AlwaysTrue,
    AlwaysFalse,
    /// `a == b` iff ids equal and the left id is even: not symmetric/reflexive.
    Asym,
}

#[derive(Clone, Copy, Debug, PartialEq, Eq)]
pub enum Probe {
    TombstoneCreated = 0,
    EmptyRestored,
    RehashInPlace,
    ResizeUp,
    Shrink,
    ShrinkToSingleton,
    TombstoneReused,
    InsertAtFullLoad,
    SmallTable,
    OneGroupTable,
    MultiGroupTable,
    ProbeWrap,
    CloneFromSameBuckets,
    CloneFromDiffBuckets,
    CloneFromSrcEmpty,
    CloneFromDstTombstones,
    PanicInResize,
    PanicInRehashInPlace,
    PanicInClone,
    PanicInDrop,
    PanicInPred,
    PanicInEq,
    PanicInHashLookup,
    PanicInIntoIterSrc,
    LeakIter,
    LeakDrain,
    LeakExtract,
    LeakEntry,
    LeakIntoIter,
    EarlyDropDrain,
    EarlyDropExtract,
    EarlyDropIntoIter,
    EntryAtFullLoad,
    EntryOnSingleton,
    EntryTombstoneSaturated,
    VacantDropped,
    RefusedAlloc,
    CapacityOverflow,
    TryReserveOk,
    GetManyDup,
    GetManyAbsent,
    GetManyAllPresent,
    ByzHashAnswer,
    ByzEqAnswer,
    SetSmallerDrivesLarger,
    SetLargerFirst,
    SubAssignRetainPath,
    SubAssignRemovePath,
    IterCloneMid,
    IterFoldSwitch,
    IterDefault,
    IterAfterExhaustion,
    FirstBucketFull,
    LastBucketFull,
    ParSplit,
    ParSteal,
    ParEarlyStop,
    ParConsumerPanic,
    ParDepth3,
    SerdeErrMid,
    SerdeLyingHint,
    SerdeDupKey,
    SerdeRoundTrip,
    MatchTagFalsePositive,
    ChurnLong,
    LookupAbsentSaturated,
    ExtendGrow,
    ReinsertSameSlot,
    IterHashMulti,
    DupElements,
    ZeroSized,
    ReserveRehash,
    GetManyUnchecked,
    InsertUniqueUnchecked,
    DrainFold,
    ExtractSizeHint,
    EntryOrDefault,
    IndexOp,
    FromArray,
    TryReserveGiant,
    ExtendByRef,
    RawInsertOtherKey,
    _Count,
}
pub const NPROBE: usize = Probe::_Count as usize;
pub const PROBE_NAMES: [&str; NPROBE] = [
    "tombstone_created",
    "empty_restored",
    "rehash_in_place",
    "resize_up",
    "shrink",
    "shrink_to_singleton",
    "tombstone_reused",
    "insert_at_full_load",
    "small_table",
    "one_group_table",
    "multi_group_table",
    "probe_wrap",
    "clone_from_same_buckets",
    "clone_from_diff_buckets",
    "clone_from_src_empty",
    "clone_from_dst_tombstones",
    "panic_in_resize",
    "panic_in_rehash_in_place",
    "panic_in_clone",
    "panic_in_drop",
    "panic_in_pred",
    "panic_in_eq",
    "panic_in_hash_lookup",
    "panic_in_iter_source",
    "leak_iter",
    "leak_drain",
    "leak_extract",
    "leak_entry",
    "leak_into_iter",
    "early_drop_drain",
    "early_drop_extract",
    "early_drop_into_iter",
    "entry_at_full_load",
    "entry_on_singleton",
    "entry_tombstone_saturated",
    "vacant_dropped",
    "refused_alloc",
    "capacity_overflow",
    "try_reserve_ok",
    "get_many_dup",
    "get_many_absent",
    "get_many_all_present",
    "byz_hash_answer",
    "byz_eq_answer",
    "set_smaller_drives_larger",
    "set_larger_first",
    "sub_assign_retain_path",
    "sub_assign_remove_path",
    "iter_clone_mid",
    "iter_fold_switch",
    "iter_default",
    "iter_after_exhaustion",
    "first_bucket_full",
    "last_bucket_full",
    "par_split",
    "par_steal",
    "par_early_stop",
    "par_consumer_panic",
    "par_depth3",
    "serde_err_mid",
    "serde_lying_hint",
    "serde_dup_key",
    "serde_round_trip",
    "match_tag_false_positive",
    "churn_long",
    "lookup_absent_saturated",
    "extend_grow",
    "reinsert_same_slot",
    "iter_hash_multi",
    "dup_elements",
    "zero_sized",
    "reserve_rehash",
    "get_many_unchecked",
    "insert_unique_unchecked",
    "drain_fold",
    "extract_size_hint",
    "entry_or_default",
    "index_op",
    "from_array",
    "try_reserve_giant",
    "extend_by_ref",
    "raw_insert_other_key",
];

#[derive(Clone, Debug)]
pub struct Block {
    pub size: usize,
    pub align: usize,
    pub base: usize,
    pub under_size: usize,
    pub under_align: usize,
    pub front: usize,
    /// allocator instance the block came from
    pub pool: u8,
}

#[derive(Clone, Copy, Debug, PartialEq, Eq, serde::Serialize, serde::Deserialize)]
pub enum Refuse {
    Never,
    /// Refuse the j-th request (1-based) made from now on.
    Nth(u32),
    /// Refuse any request of more than this many bytes.
    Above(u64),
    All,
}

pub struct Sim {
    // ---- element ledger
    /// index = serial; 0 never issued, 1 live, 2 dropped.
    pub serial_state: Vec<u8>,
    pub serial_id: Vec<u32>,
    pub live_serials: u64,
    /// live count of serial-less droppable elements, by (type tag, id)
    pub multiset: BTreeMap<(u8, u32), i64>,
    pub created: u64,
    pub dropped: u64,
    // ---- violations noticed inside callbacks (class, detail)
    pub violations: Vec<(String, String)>,
    // ---- faults
    pub armed: Option<(Class, u32)>,
    pub fired: Option<Class>,
    pub counts: [u32; NCLASS],
    pub total_counts: [u64; NCLASS],
    pub fired_counts: [u64; NCLASS],
    pub op_callbacks: u64,
    pub quiet: bool,
    pub callback_cap: u64,
    pub eq_mode: EqMode,
    pub byz_rng: Rng,
    // ---- allocator
    pub blocks: BTreeMap<usize, Block>,
    pub quarantine: Vec<Block>,
    pub quarantine_bytes: usize,
    pub alloc_calls: u64,
    pub dealloc_calls: u64,
    pub alloc_bytes: u64,
    pub op_alloc_calls: u32,
    pub op_dealloc_calls: u32,
    pub op_alloc_bytes: u64,
    pub op_max_request: u64,
    pub op_refused: u32,
    pub last_refused: Option<(usize, usize)>,
    pub requests_seen: u32,
    pub refuse: Refuse,
    pub refused_total: u64,
    pub exact_align: bool,
    pub ceiling: usize,
    // ---- bookkeeping
    pub digest: Digest,
    pub probes: [u64; NPROBE],
    pub last_panic_msg: Option<String>,
}

impl Sim {
    fn new() -> Sim {
        Sim {
            serial_state: vec![0],
            serial_id: vec![0],
            live_serials: 0,
            multiset: BTreeMap::new(),
            created: 0,
            dropped: 0,
            violations: Vec::new(),
            armed: None,
            fired: None,
            counts: [0; NCLASS],
            total_counts: [0; NCLASS],
            fired_counts: [0; NCLASS],
            op_callbacks: 0,
            quiet: false,
            callback_cap: u64::MAX,
            eq_mode: EqMode::Lawful,
            byz_rng: Rng::new(0),
            blocks: BTreeMap::new(),
            quarantine: Vec::new(),
            quarantine_bytes: 0,
            alloc_calls: 0,
            dealloc_calls: 0,
            alloc_bytes: 0,
            op_alloc_calls: 0,
            op_dealloc_calls: 0,
            op_alloc_bytes: 0,
            op_max_request: 0,
            op_refused: 0,
            last_refused: None,
            requests_seen: 0,
            refuse: Refuse::Never,
            refused_total: 0,
            exact_align: true,
            ceiling: 1 << 30,
            digest: Digest::new(),
            probes: [0; NPROBE],
            last_panic_msg: None,
        }
    }
    pub fn violate(&mut self, class: &str, detail: String) {
        if self.violations.len() < 64 {
            self.violations.push((class.to_string(), detail));
        }
    }
    pub fn probe(&mut self, p: Probe) {
        self.probes[p as usize] += 1;
    }
    /// Resets per-operation counters; called by the executor before each operation.
    pub fn begin_op(&mut self) {
        self.counts = [0; NCLASS];
        self.op_callbacks = 0;
        self.fired = None;
        self.op_alloc_calls = 0;
        self.op_dealloc_calls = 0;
        self.op_alloc_bytes = 0;
        self.op_max_request = 0;
        self.op_refused = 0;
        self.last_refused = None;
    }
    pub fn new_serial(&mut self, id: u32) -> u32 {
        let s = self.serial_state.len() as u32;
        self.serial_state.push(1);
        self.serial_id.push(id);
        self.live_serials += 1;
        self.created += 1;
        s
    }
    pub fn drop_serial(&mut self, serial: u32, id: u32) {
        self.dropped += 1;
        match self.serial_state.get(serial as usize).copied() {
            Some(1) => {
                if self.serial_id[serial as usize] != id {
                    self.violate(
                        "ledger/corrupt-element",
                        format!("dropping serial {serial} with id {id}, registered id {}", self.serial_id[serial as usize]),
                    );
                }
                self.serial_state[serial as usize] = 2;
                self.live_serials -= 1;
            }
            Some(2) => self.violate("ledger/double-drop", format!("serial {serial} (id {id}) dropped twice")),
            _ => self.violate("ledger/drop-unknown", format!("drop of never-created serial {serial} (id {id})")),
        }
    }
    pub fn is_live(&self, serial: u32, id: u32) -> bool {
        self.serial_state.get(serial as usize).copied() == Some(1) && self.serial_id[serial as usize] == id
    }
    pub fn ms_create(&mut self, ty: u8, id: u32) {
        *self.multiset.entry((ty, id)).or_insert(0) += 1;
        self.created += 1;
    }
    pub fn ms_drop(&mut self, ty: u8, id: u32) {
        self.dropped += 1;
        let e = self.multiset.entry((ty, id)).or_insert(0);
        *e -= 1;
        if *e < 0 {
            *e = 0;
            self.violate("ledger/double-drop", format!("element type {ty} id {id} dropped more often than created"));
        }
    }
    pub fn ms_live_total(&self) -> i64 {
        self.multiset.values().sum()
    }
}

static SIM: Mutex<Option<Sim>> = Mutex::new(None);

/// Heartbeat for the CPU watchdog: bumped once per executed operation.
pub static HEARTBEAT: std::sync::atomic::AtomicU64 = std::sync::atomic::AtomicU64::new(0);

pub struct SimGuard(MutexGuard<'static, Option<Sim>>);
impl std::ops::Deref for SimGuard {
    type Target = Sim;
    fn deref(&self) -> &Sim {
        self.0.as_ref().unwrap()
    }
}
impl std::ops::DerefMut for SimGuard {
    fn deref_mut(&mut self) -> &mut Sim {
        self.0.as_mut().unwrap()
    }
}

/// Locks the global simulator state. Never hold the guard across a call into hashbrown.
pub fn sim() -> SimGuard {
    let mut g = SIM.lock().unwrap_or_else(|e| e.into_inner());
    if g.is_none() {
        *g = Some(Sim::new());
    }
    SimGuard(g)
}

/// Starts a fresh run: everything is reset except nothing — a run is a pure function of its scenario.
pub fn reset() {
    let mut g = SIM.lock().unwrap_or_else(|e| e.into_inner());
    // free quarantined / leaked blocks of the previous run before forgetting them
    if let Some(old) = g.take() {
        crate::alloc::release_all(old);
    }
    *g = Some(Sim::new());
}

/// A callback of class `c` is being invoked by hashbrown. Counts it, and panics if armed.
pub fn tick(c: Class) {
    let mut fire = false;
    let mut diverge = None;
    {
        let mut s = sim();
        if s.quiet {
            // a section whose callback count depends on something the simulator does not own (the randomly
            // seeded default hasher): neither counted nor a fault target, so that it cannot perturb replay
            return;
        }
        s.counts[c as usize] += 1;
        s.total_counts[c as usize] += 1;
        s.op_callbacks += 1;
        if s.op_callbacks > s.callback_cap && !std::thread::panicking() {
            // one shot
            s.callback_cap = u64::MAX;
            diverge = Some(s.op_callbacks);
        } else if let Some((ac, k)) = s.armed {
            if ac == c && s.counts[c as usize] == k && !std::thread::panicking() {
                s.armed = None;
                s.fired = Some(c);
                s.fired_counts[c as usize] += 1;
                fire = true;
            }
        }
    }
    if let Some(n) = diverge {
        std::panic::panic_any(SimDiverge(n));
    }
    if fire {
        std::panic::panic_any(SimPanic(c));
    }
}

pub fn install_panic_hook() {
    std::panic::set_hook(Box::new(|info| {
        let p = info.payload();
        if p.is::<SimPanic>() || p.is::<SimCeiling>() || p.is::<SimDiverge>() {
            return;
        }
        let msg = if let Some(s) = p.downcast_ref::<&str>() {
            s.to_string()
        } else if let Some(s) = p.downcast_ref::<String>() {
            s.clone()
        } else {
            "<non-string panic>".to_string()
        };
        let loc = info.location().map(|l| format!("{}:{}", l.file(), l.line())).unwrap_or_default();
        // try_lock: a panic raised while the state is locked must not deadlock
        if let Ok(mut g) = SIM.try_lock() {
            if let Some(s) = g.as_mut() {
                s.last_panic_msg = Some(format!("{msg} @ {loc}"));
            }
        }
    }));
}
