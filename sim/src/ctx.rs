//! Run context shared by all world interpreters: guarded calls into hashbrown, violation
//! construction, expected-leak accounting, run signature, state sketch.

use crate::dump::Shape;
use crate::rng::Digest;
use crate::scenario::{Config, Op, Violation};
use crate::state::{sim, Class, Probe, Refuse, SimCeiling, SimDiverge, SimPanic, NCLASS};
use std::collections::BTreeSet;
use std::panic::{catch_unwind, AssertUnwindSafe};

pub type VResult<T = ()> = Result<T, Violation>;

/// Outcome of one guarded call into hashbrown.
pub enum Out<R> {
    Ok(R),
    /// An injected fault of this class unwound out of the call.
    Fault(Class),
    /// The allocator seam saw a request above the hard ceiling.
    Ceiling(usize),
    /// The per-operation callback cap was exceeded.
    Diverge(u64),
    /// Any other panic (hashbrown assertion, capacity overflow, documented panics ...).
    Panic(String),
}

impl<R> Out<R> {
    /// Forgets the value of a returned call (used to hand a non-Ok outcome to `settle`).
    pub fn map_unit(self) -> Out<()> {
        match self {
            Out::Ok(_) => Out::Ok(()),
            Out::Fault(c) => Out::Fault(c),
            Out::Ceiling(n) => Out::Ceiling(n),
            Out::Diverge(n) => Out::Diverge(n),
            Out::Panic(p) => Out::Panic(p),
        }
    }
}

/// k-minimum-values sketch for counting distinct 64-bit signatures across worker processes.
#[derive(Clone, Debug, Default)]
pub struct Kmv {
    pub set: BTreeSet<u64>,
}
pub const KMV_K: usize = 4096;
impl Kmv {
    pub fn add(&mut self, h: u64) {
        if self.set.len() < KMV_K {
            self.set.insert(h);
        } else if let Some(&mx) = self.set.iter().next_back() {
            if h < mx && self.set.insert(h) {
                self.set.remove(&mx);
            }
        }
    }
}

pub struct RunCtx {
    pub cfg: Config,
    pub op_index: usize,
    pub op_kind: String,
    /// callback counts of the last guarded call
    pub last_counts: [u32; NCLASS],
    pub last_alloc_calls: u32,
    pub last_dealloc_calls: u32,
    pub last_alloc_bytes: u64,
    pub last_max_request: u64,
    pub last_refused: u32,
    pub last_refused_layout: Option<(usize, usize)>,
    pub last_fired: Option<Class>,
    /// callback counts of the first real (non-Nop) call of the current operation
    pub main_counts: [u32; NCLASS],
    pub main_recorded: bool,
    pub main_alloc_calls: u32,
    /// serials deliberately leaked by the scenario (mem::forget): must stay live until the end
    pub leaked_serials: BTreeSet<u32>,
    /// number of multiset-tracked elements deliberately leaked
    pub leaked_ms: i64,
    /// bytes / blocks deliberately leaked
    pub leaked_bytes: u64,
    pub leaked_blocks: u64,
    /// a Drop fault fired in this run: the exact leak set is then unknown (allowed by C04)
    pub drop_fault_fired: bool,
    /// run signature: (op kind, result class, structural events)
    pub sig: Digest,
    /// C18: digest of content-semantic observables only (lengths and sorted contents after every step)
    pub transcript: Digest,
    pub nontrivial: bool,
    /// state signatures seen in this run
    pub states: Vec<u64>,
    pub ops_executed: u64,
    pub callbacks: u64,
}

impl RunCtx {
    pub fn new(cfg: Config) -> RunCtx {
        RunCtx {
            cfg,
            op_index: 0,
            op_kind: String::new(),
            last_counts: [0; NCLASS],
            last_alloc_calls: 0,
            last_dealloc_calls: 0,
            last_alloc_bytes: 0,
            last_max_request: 0,
            last_refused: 0,
            last_refused_layout: None,
            last_fired: None,
            main_counts: [0; NCLASS],
            main_recorded: false,
            main_alloc_calls: 0,
            leaked_serials: BTreeSet::new(),
            leaked_ms: 0,
            leaked_bytes: 0,
            leaked_blocks: 0,
            drop_fault_fired: false,
            sig: Digest::new(),
            transcript: Digest::new(),
            nontrivial: false,
            states: Vec::new(),
            ops_executed: 0,
            callbacks: 0,
        }
    }

    pub fn violation(&self, class: &str, detail: String) -> Violation {
        Violation { class: class.to_string(), op_index: self.op_index, op_kind: self.op_kind.clone(), detail }
    }

    pub fn functional(&self) -> bool {
        self.cfg.functional >= 1
    }

    /// Runs `f` (a call into hashbrown) with the operation's faults armed, catching unwinds.
    pub fn call<R>(&mut self, op: &Op, f: impl FnOnce() -> R) -> Out<R> {
        crate::state::HEARTBEAT.fetch_add(1, std::sync::atomic::Ordering::Relaxed);
        {
            let mut s = sim();
            s.begin_op();
            s.armed = op.f.as_ref().map(|f| (f.c, f.k));
            s.refuse = op.r;
            s.requests_seen = 0;
            // Termination bound: a lawful-length operation costs at most O((buckets + elements of the operation)^2)
            // callbacks when every hash collides and equality always fails (a union of two n-element sets under
            // such a hash makes n^2/2 comparisons). Every bucket costs at least one live byte, so the number of
            // live bytes bounds the bucket count; the configured cap is only the floor for small tables.
            s.callback_cap = if self.cfg.callback_cap == 0 {
                u64::MAX
            } else {
                let n = crate::alloc::live_bytes(&s) + op.v.len() as u64 + 64;
                self.cfg.callback_cap.max(n.saturating_mul(n).saturating_mul(32))
            };
            s.last_panic_msg = None;
        }
        let r = catch_unwind(AssertUnwindSafe(f));
        let msg;
        {
            let mut s = sim();
            s.armed = None;
            s.refuse = Refuse::Never;
            s.callback_cap = u64::MAX;
            self.last_counts = s.counts;
            self.last_alloc_calls = s.op_alloc_calls;
            self.last_dealloc_calls = s.op_dealloc_calls;
            self.last_alloc_bytes = s.op_alloc_bytes;
            self.last_max_request = s.op_max_request;
            self.last_refused = s.op_refused;
            self.last_refused_layout = s.last_refused;
            self.last_fired = s.fired;
            self.callbacks += s.op_callbacks;
            if op.k != crate::scenario::Kd::Nop && !self.main_recorded {
                self.main_recorded = true;
                self.main_counts = s.counts;
                self.main_alloc_calls = s.op_alloc_calls;
            }
            msg = s.last_panic_msg.take();
        }
        match r {
            Ok(v) => Out::Ok(v),
            Err(p) => {
                if let Some(sp) = p.downcast_ref::<SimPanic>() {
                    if sp.0 == Class::Drop {
                        self.drop_fault_fired = true;
                    }
                    self.sig.add(0xFA17 ^ sp.0 as u64);
                    self.nontrivial = true;
                    Out::Fault(sp.0)
                } else if let Some(c) = p.downcast_ref::<SimCeiling>() {
                    Out::Ceiling(c.0)
                } else if let Some(d) = p.downcast_ref::<SimDiverge>() {
                    Out::Diverge(d.0)
                } else {
                    Out::Panic(msg.unwrap_or_else(|| "<panic>".to_string()))
                }
            }
        }
    }

    /// Records structural events between two shapes of the same slot (probes + signature).
    pub fn note_transition(&mut self, before: &Shape, after: &Shape, hashes: u32) {
        let mut s = sim();
        let mut ev = 0u64;
        if after.deleted > before.deleted {
            s.probe(Probe::TombstoneCreated);
            ev |= 1;
        }
        if after.buckets == before.buckets && after.items < before.items && after.empty > before.empty {
            s.probe(Probe::EmptyRestored);
        }
        if !before.singleton && after.buckets == before.buckets && before.deleted > 0 && after.deleted == 0 && after.items >= before.items && after.items > 0 && self.last_alloc_calls == 0 && hashes as usize >= before.items.max(1) && before.growth_left == 0 {
            s.probe(Probe::RehashInPlace);
            ev |= 2;
        }
        if after.buckets > before.buckets || (before.singleton && !after.singleton) {
            s.probe(Probe::ResizeUp);
            ev |= 4;
        }
        if after.buckets < before.buckets && !after.singleton {
            s.probe(Probe::Shrink);
            ev |= 8;
        }
        if !before.singleton && after.singleton {
            s.probe(Probe::ShrinkToSingleton);
            ev |= 16;
        }
        if after.buckets == before.buckets && after.items > before.items && after.deleted < before.deleted {
            s.probe(Probe::TombstoneReused);
            ev |= 32;
        }
        if !after.singleton {
            if after.buckets < after.width {
                s.probe(Probe::SmallTable);
            } else if after.buckets == after.width {
                s.probe(Probe::OneGroupTable);
            } else {
                s.probe(Probe::MultiGroupTable);
            }
        }
        drop(s);
        if ev != 0 {
            self.nontrivial = true;
            self.sig.add(0xE0 ^ ev);
        }
    }

    /// Adds a state signature (bucket count, width, E/D/F pattern, growth_left).
    pub fn note_state(&mut self, d: &hashbrown::verif::VerifDump) {
        let mut g = Digest::new();
        g.add(d.bucket_mask as u64);
        g.add(d.group_width as u64);
        g.add(d.growth_left as u64);
        let n = if d.is_empty_singleton { 0 } else { d.bucket_mask + 1 };
        if n > 0 {
            // boundary occupancy: the first / last bucket holds an element; a run of non-EMPTY control bytes
            // crosses the end of the table (probe windows and the tombstone decision of erase wrap around there)
            let mut s = sim();
            if d.ctrl[0] & 0x80 == 0 {
                s.probe(Probe::FirstBucketFull);
            }
            if d.ctrl[n - 1] & 0x80 == 0 {
                s.probe(Probe::LastBucketFull);
            }
            if d.ctrl[0] != 0xFF && d.ctrl[n - 1] != 0xFF && n >= d.group_width {
                s.probe(Probe::ProbeWrap);
            }
        }
        let mut acc = 0u64;
        for (i, &c) in d.ctrl[..n].iter().enumerate() {
            let code = if c == 0xFF { 0 } else if c == 0x80 { 1 } else { 2 };
            acc = acc.wrapping_mul(3).wrapping_add(code);
            if i % 32 == 31 {
                g.add(acc);
                acc = 0;
            }
        }
        g.add(acc);
        if self.states.len() < 4096 {
            self.states.push(g.0);
        }
    }

    /// C18: folds a slot's observable contents into the transcript.
    pub fn transcript_add(&mut self, slot: usize, len: usize, items: impl Iterator<Item = u64>) {
        self.transcript.add(self.op_index as u64);
        self.transcript.add(slot as u64);
        self.transcript.add(len as u64);
        for x in items {
            self.transcript.add(x);
        }
    }

    /// The C18 scanner monitor on one dump.
    pub fn group_monitor(&mut self, d: &hashbrown::verif::VerifDump) -> VResult {
        if self.cfg.group_monitor {
            let salt = self.sig.0 ^ self.ops_executed;
            if let Some((c, det)) = crate::groupmon::check(d, salt, 8) {
                return Err(self.violation(&c, det));
            }
        }
        Ok(())
    }

    /// Drains violations noticed inside callbacks / the allocator.
    pub fn drain_callback_violations(&mut self) -> VResult {
        let v = {
            let mut s = sim();
            if s.violations.is_empty() {
                None
            } else {
                Some(s.violations.remove(0))
            }
        };
        match v {
            Some((c, d)) => Err(self.violation(&c, d)),
            None => Ok(()),
        }
    }
}
