//! The interface between world interpreters, the generator and the runner.

use crate::ctx::RunCtx;
use crate::scenario::{Op, Violation};

#[derive(Clone, Debug, Default)]
pub struct SlotView {
    /// ids currently in the reference model (for tables: with duplicates)
    pub ids: Vec<u32>,
    pub len: usize,
    pub cap: usize,
    pub buckets: usize,
    pub growth_left: usize,
    pub deleted: usize,
    pub singleton: bool,
    pub width: usize,
}

#[derive(Clone, Debug, Default)]
pub struct WorldView {
    pub slots: Vec<SlotView>,
    pub universe: u32,
}

pub trait World {
    fn exec(&mut self, idx: usize, op: &Op) -> Result<(), Violation>;
    fn finish(&mut self) -> Result<(), Violation>;
    fn view(&self) -> WorldView;
    fn ctx(&mut self) -> &mut RunCtx;
}
