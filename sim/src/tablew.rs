//! HashTable world (C06 and the table parts of C02/C03/C04/C05/C08/C09/C10/C12/C15): the
//! explicit-hash API against a multiset model keyed by caller-supplied hashes.

use crate::alloc::SimAlloc;
use crate::ctx::{Out, RunCtx, VResult};
use crate::dump::{self, Shape};
use crate::elem::{sim_eq, ElemT};
use crate::iterdrv::{drive, judge, Item, IterPlan};
use crate::plan::Plan;
use crate::scenario::{Config, Kd, Op, Violation};
use crate::state::{sim, tick, Class, Probe};
use crate::world::{SlotView, World, WorldView};
use hashbrown::hash_table::Entry;
use hashbrown::HashTable;

pub type STable<E> = HashTable<E, SimAlloc>;

#[derive(Clone, Copy, Debug, PartialEq, Eq, PartialOrd, Ord)]
pub struct TE {
    pub id: u32,
    pub serial: u32,
    pub hash: u64,
    pub payload: u32,
}

pub const TTOGGLE: u32 = 0x4000_0000;

pub struct TableSlot<E: ElemT> {
    pub t: Option<STable<E>>,
    pub model: Vec<TE>,
    pub plan: Plan,
}

#[derive(Clone, Debug, Default)]
pub struct TFault {
    pub before: Vec<TE>,
    pub arg_serials: Vec<u32>,
    pub arg_ids: Vec<u32>,
    pub toggles: bool,
    pub fresh_ok: bool,
    pub multi: bool,
    pub blocks_before: usize,
}

pub struct TableWorld<E: ElemT> {
    pub slots: Vec<TableSlot<E>>,
    pub ctx: RunCtx,
    pub peak: Vec<(usize, usize)>,
}

macro_rules! vio {
    ($self:ident, $class:expr, $($arg:tt)*) => {
        return Err($self.ctx.violation(&$class, format!($($arg)*)))
    };
}

fn te<E: ElemT>(e: &E) -> TE {
    TE { id: e.id(), serial: e.serial(), hash: e.hash(), payload: e.payload() }
}
fn item<E: ElemT>(e: &E) -> Item {
    (e.id(), e.serial(), e.payload(), (e.hash() >> 32) as u32 ^ e.hash() as u32)
}
fn te_item(e: &TE) -> Item {
    (e.id, e.serial, e.payload, (e.hash >> 32) as u32 ^ e.hash as u32)
}
fn hasher<E: ElemT>(e: &E) -> u64 {
    tick(Class::Hash);
    e.hash()
}

impl<E: ElemT> TableWorld<E> {
    /// payload toggle mask; zero-sized elements cannot store a payload
    const TG: u32 = if E::IS_ZST { 0 } else { TTOGGLE };
    pub fn new(cfg: Config) -> Self {
        let slots: Vec<TableSlot<E>> = cfg.plans.iter().enumerate().map(|(i, p)| TableSlot { t: Some(HashTable::new_in(SimAlloc::of_slot(i))), model: Vec::new(), plan: p.clone() }).collect();
        let n = slots.len();
        if E::IS_ZST {
            sim().probe(Probe::ZeroSized);
        }
        TableWorld { slots, ctx: RunCtx::new(cfg), peak: vec![(0, 0); n] }
    }
    pub(crate) fn tab(&self, si: usize) -> &STable<E> {
        self.slots[si].t.as_ref().unwrap()
    }
    fn hash_of(&self, si: usize, id: u32) -> u64 {
        if E::IS_ZST {
            0
        } else if let Some(e) = self.slots[si].model.iter().find(|e| e.id == id) {
            // the hash an element was inserted with is the one the caller must keep using for it
            // (after a clone or an interrupted clone_from the elements carry the source's hashes)
            e.hash
        } else {
            self.slots[si].plan.hash(id)
        }
    }
    pub fn shape(&self, si: usize) -> Shape {
        dump::shape(&hashbrown::verif::dump_table(self.tab(si)))
    }
    fn actual(&self, si: usize) -> Vec<(TE, bool)> {
        hashbrown::verif::full_buckets_table(self.tab(si)).into_iter().map(|(_, e)| (te(e), e.intact())).collect()
    }
    fn fctx(&self, si: usize, op: &Op) -> TFault {
        if op.f.is_some() || self.ctx.cfg.callback_cap != 0 {
            TFault { before: self.slots[si].model.clone(), blocks_before: sim().blocks.len(), ..Default::default() }
        } else {
            TFault::default()
        }
    }

    fn settle<R>(&mut self, out: Out<R>, si: usize, fc: TFault) -> VResult<Option<R>> {
        match out {
            Out::Ok(r) => Ok(Some(r)),
            Out::Fault(c) => {
                self.after_fault(si, fc, c)?;
                Ok(None)
            }
            Out::Ceiling(n) => {
                self.ctx.drain_callback_violations()?;
                vio!(self, "alloc/over-reservation", "request of {n} bytes")
            }
            Out::Diverge(n) => vio!(self, format!("diverge/{}", self.ctx.op_kind), "more than {n} callbacks in one operation"),
            Out::Panic(msg) => {
                self.ctx.drain_callback_violations()?;
                if msg.contains("Went past end of probe sequence") {
                    // the debug assertion that stands in for a probe loop that would never end
                    vio!(self, format!("hang/probe-{}", self.ctx.op_kind), "a probe sequence visited every group without finding an EMPTY byte (non-termination in a release build): {msg}")
                }
                vio!(self, format!("panic/{}", self.ctx.op_kind), "unexpected panic: {msg}")
            }
        }
    }

    fn after_fault(&mut self, si: usize, fc: TFault, class: Class) -> VResult {
        self.ctx.drain_callback_violations()?;
        let d = hashbrown::verif::dump_table(self.tab(si));
        if let Some((c, det)) = dump::check(&d).into_iter().next() {
            vio!(self, c, "after a {} panic: {det}", class.name());
        }
        let grew = self.ctx.last_alloc_calls > 0;
        {
            let mut s = sim();
            match class {
                Class::Hash if grew => s.probe(Probe::PanicInResize),
                Class::Hash if self.ctx.last_counts[Class::Hash as usize] > 1 => s.probe(Probe::PanicInRehashInPlace),
                Class::Hash => s.probe(Probe::PanicInHashLookup),
                Class::Eq => s.probe(Probe::PanicInEq),
                Class::Clone => s.probe(Probe::PanicInClone),
                Class::Drop => s.probe(Probe::PanicInDrop),
                Class::Pred => s.probe(Probe::PanicInPred),
                _ => {}
            }
        }
        let act = self.actual(si);
        if act.iter().any(|x| !x.1) {
            vio!(self, "postpanic/dead-element", "after a {} panic the table holds an element that is not live", class.name());
        }
        let len = self.tab(si).len();
        if len != act.len() {
            vio!(self, "postpanic/len", "after a {} panic len()={} but {} occupied slots", class.name(), len, act.len());
        }
        let tref = self.slots[si].t.as_ref().unwrap();
        let nop = Op::new(Kd::Nop);
        let yielded = match self.ctx.call(&nop, || tref.iter().count()) {
            Out::Ok(n) => n,
            _ => vio!(self, "postpanic/iter", "iteration after a {} panic panicked", class.name()),
        };
        if yielded != act.len() {
            vio!(self, "postpanic/len", "after a {} panic len()={} but iter() yields {}", class.name(), act.len(), yielded);
        }
        if E::HAS_SERIAL {
            let mut seen = std::collections::BTreeSet::new();
            for (e, _) in &act {
                if !seen.insert(e.serial) {
                    vio!(self, "postpanic/duplicate-key", "element serial {} stored twice after a {} panic", e.serial, class.name());
                }
                let old = fc.before.iter().find(|b| b.serial == e.serial);
                let ok = match old {
                    Some(o) => o.id == e.id && o.hash == e.hash && (o.payload == e.payload || (fc.toggles && o.payload ^ Self::TG == e.payload)),
                    None => fc.arg_serials.contains(&e.serial) || (fc.fresh_ok && fc.arg_ids.contains(&e.id)),
                };
                if !ok {
                    vio!(self, "postpanic/alien-element", "after a {} panic the table holds {:?} which is neither an old element nor an argument", class.name(), e);
                }
            }
            // findable through its hash
            if self.ctx.functional() {
                for (e, _) in &act {
                    let tref = self.slots[si].t.as_ref().unwrap();
                    let (h, ser) = (e.hash, e.serial);
                    match self.ctx.call(&nop, || tref.find(h, |x| x.serial() == ser).is_some()) {
                        Out::Ok(true) => {}
                        _ => vio!(self, "postpanic/unfindable", "after a {} panic element {:?} is stored but find() misses it", class.name(), e),
                    }
                }
            }
            if class != Class::Drop && !self.ctx.drop_fault_fired {
                let s = sim();
                for b in &fc.before {
                    if !act.iter().any(|(e, _)| e.serial == b.serial) && s.serial_state[b.serial as usize] == 1 {
                        drop(s);
                        vio!(self, "postpanic/leaked-element", "element {:?} left the table during a {} panic but was never dropped", b, class.name());
                    }
                }
                for &a in &fc.arg_serials {
                    if a != 0 && s.serial_state[a as usize] == 1 && !act.iter().any(|(e, _)| e.serial == a) {
                        drop(s);
                        vio!(self, "postpanic/leaked-element", "argument serial {a} was neither stored nor dropped after a {} panic", class.name());
                    }
                }
            }
        } else if act.len() > fc.before.len() + fc.arg_ids.len().max(fc.arg_serials.len()) {
            vio!(self, "postpanic/alien-element", "after a {} panic the table holds {} elements, more than before ({}) plus arguments", class.name(), act.len(), fc.before.len());
        }
        if class == Class::Hash && grew && !fc.multi {
            let mut a: Vec<TE> = act.iter().map(|x| x.0).collect();
            a.sort();
            let mut b = fc.before.clone();
            b.sort();
            if a != b {
                vio!(self, "postpanic/grow-changed-contents", "a hasher panic while growing into a new allocation changed the contents: {} before, {} after", b.len(), a.len());
            }
            if sim().blocks.len() != fc.blocks_before {
                vio!(self, "postpanic/grow-leaked-block", "live blocks before {} after {}", fc.blocks_before, sim().blocks.len());
            }
        }
        self.slots[si].model = act.into_iter().map(|x| x.0).collect();
        self.ctx.note_state(&d);
        Ok(())
    }

    pub fn check_slot(&mut self, si: usize) -> VResult {
        self.ctx.drain_callback_violations()?;
        let d = hashbrown::verif::dump_table(self.tab(si));
        if let Some((c, det)) = dump::check(&d).into_iter().next() {
            vio!(self, c, "{det}");
        }
        self.ctx.note_state(&d);
        self.ctx.group_monitor(&d)?;
        if let Some((c, det)) = dump::check_budget(&d) {
            vio!(self, c, "{det}");
        }
        let act = self.actual(si);
        if act.iter().any(|x| !x.1) {
            vio!(self, "ledger/invalid-ref", "the table holds an element that is not live");
        }
        let (len, cap, empty) = {
            let t = self.tab(si);
            (t.len(), t.capacity(), t.is_empty())
        };
        if len != act.len() {
            vio!(self, "inv/I2", "len()={} but {} occupied slots", len, act.len());
        }
        if cap < len {
            vio!(self, "cap/less-than-len", "capacity()={cap} < len()={len}");
        }
        if empty != (len == 0) {
            vio!(self, format!("len/{}", self.ctx.op_kind), "is_empty()={empty} with len()={len}");
        }
        if !self.ctx.functional() {
            let tref = self.slots[si].t.as_ref().unwrap();
            let nop = Op::new(Kd::Nop);
            match self.ctx.call(&nop, || tref.iter().count()) {
                Out::Ok(n) if n == len => {}
                _ => vio!(self, "byz/len-iter", "len()={len} but iter() disagrees or panicked"),
            }
            return self.check_alloc_balance();
        }
        if len != self.slots[si].model.len() {
            vio!(self, format!("len/{}", self.ctx.op_kind), "len()={} but the model holds {} (duplicates counted)", len, self.slots[si].model.len());
        }
        let mut a: Vec<TE> = act.iter().map(|x| x.0).collect();
        a.sort();
        let mut m = self.slots[si].model.clone();
        m.sort();
        if a != m {
            let diff = a.iter().zip(m.iter()).find(|(x, y)| x != y);
            vio!(self, format!("contents/{}", self.ctx.op_kind), "stored elements differ from the model; first difference (actual, model) = {:?}", diff);
        }
        if !E::HAS_SERIAL && E::HAS_DROP && !self.ctx.drop_fault_fired {
            // elements without a serial are tracked as a multiset: everything live must be stored in a slot
            let stored: i64 = self.slots.iter().map(|s| s.model.len() as i64).sum();
            let live = sim().ms_live_total();
            if live != stored + self.ctx.leaked_ms {
                vio!(self, if live > stored + self.ctx.leaked_ms { "ledger/leak" } else { "ledger/double-drop" }, "{live} droppable elements are live, the collections hold {stored} (+{} deliberately leaked)", self.ctx.leaked_ms);
            }
        }
        self.ctx.transcript_add(si, len, a.iter().flat_map(|e| [e.id as u64, e.payload as u64, e.hash]));
        if len as u32 <= self.ctx.cfg.sweep_below {
            self.sweep(si)?;
        }
        if self.ctx.cfg.churn_bound > 0 {
            if len > self.peak[si].0 || self.peak[si].1 == 0 {
                let p = len.max(self.peak[si].0).max(1);
                let fresh: STable<E> = HashTable::with_capacity_in(p, SimAlloc);
                self.peak[si] = (p, fresh.allocation_size().max(1));
            }
            let sz = self.tab(si).allocation_size();
            let bound = self.peak[si].1 * self.ctx.cfg.churn_bound as usize;
            if sz > bound {
                vio!(self, "churn/memory", "allocation_size()={sz} exceeds {} x {} bytes (fresh table for the peak live size {}) with {len} live elements", self.ctx.cfg.churn_bound, self.peak[si].1, self.peak[si].0);
            }
            if self.ctx.ops_executed > 2000 {
                sim().probe(Probe::ChurnLong);
            }
        }
        self.check_alloc_balance()
    }

    /// Every stored element is found through its hash; iter_hash(h) covers the elements with hash h.
    pub fn sweep(&mut self, si: usize) -> VResult {
        let nop = Op::new(Kd::Nop);
        let model = self.slots[si].model.clone();
        for e in &model {
            let tref = self.slots[si].t.as_ref().unwrap();
            let (h, id, ser) = (e.hash, e.id, e.serial);
            let got = self.ctx.call(&nop, || tref.find(h, |x| sim_eq(x.id(), id) && x.serial() == ser).map(|x| te(x)));
            match got {
                Out::Ok(Some(g)) if g == *e => {}
                Out::Ok(g) => vio!(self, format!("sweep/{}", self.ctx.op_kind), "find(hash of {id}) for serial {ser} returned {:?}, model has {:?}", g, e),
                _ => vio!(self, format!("sweep/{}", self.ctx.op_kind), "find panicked"),
            }
        }
        let mx = model.iter().map(|e| e.id).max().unwrap_or(0);
        for j in 0..2u32 {
            if E::IS_ZST {
                break;
            }
            let id = mx + 1 + j * 5;
            let h = self.hash_of(si, id);
            let tref = self.slots[si].t.as_ref().unwrap();
            match self.ctx.call(&nop, || tref.find(h, |x| sim_eq(x.id(), id)).is_some()) {
                Out::Ok(false) => {}
                _ => vio!(self, format!("sweep/{}", self.ctx.op_kind), "find of absent id {id} returned an element or panicked"),
            }
        }
        let tref = self.slots[si].t.as_ref().unwrap();
        let mut it: Vec<TE> = match self.ctx.call(&nop, || tref.iter().map(|x| te(x)).collect()) {
            Out::Ok(v) => v,
            _ => vio!(self, format!("sweep/{}", self.ctx.op_kind), "iter() panicked"),
        };
        it.sort();
        let mut m = model;
        m.sort();
        if it != m {
            vio!(self, format!("sweep/{}", self.ctx.op_kind), "iter() yields {} elements that differ from the model's {}", it.len(), m.len());
        }
        Ok(())
    }

    pub fn check_alloc_balance(&mut self) -> VResult {
        if self.ctx.drop_fault_fired {
            return Ok(());
        }
        let mut sum = 0u64;
        let mut blocks = 0u64;
        for s in &self.slots {
            if let Some(t) = &s.t {
                let a = t.allocation_size() as u64;
                sum += a;
                // a zero-sized element table still owns a block for its control bytes
                if a > 0 {
                    blocks += 1;
                }
            }
        }
        let (live, nblocks, findings) = {
            let s = sim();
            (crate::alloc::live_bytes(&s), s.blocks.len() as u64, crate::alloc::audit_live(&s))
        };
        if let Some((c, d)) = findings.into_iter().next() {
            vio!(self, c, "{d}");
        }
        if live != sum + self.ctx.leaked_bytes || nblocks != blocks + self.ctx.leaked_blocks {
            vio!(self, "alloc/size-mismatch", "allocator holds {live} bytes in {nblocks} blocks, tables report {sum} bytes in {blocks} blocks (+{} deliberately leaked)", self.ctx.leaked_bytes);
        }
        Ok(())
    }

    fn touch(&mut self, si: usize, before: &Shape) -> VResult {
        let after = self.shape(si);
        let hashes = self.ctx.last_counts[Class::Hash as usize];
        self.ctx.note_transition(before, &after, hashes);
        // I6: while the bucket count stays the same, growth_left + items + tombstones is conserved (every
        // operation only moves slots between the three accounts)
        if !before.singleton && !after.singleton && before.buckets == after.buckets {
            let (b, a) = (before.growth_left + before.items + before.deleted, after.growth_left + after.items + after.deleted);
            if a != b {
                vio!(self, "inv/I6", "capacity budget changed at constant bucket count {}: growth_left+items+tombstones {} -> {} (before: {}+{}+{}, after: {}+{}+{})", after.buckets, b, a, before.growth_left, before.items, before.deleted, after.growth_left, after.items, after.deleted);
            }
        }
        if !self.ctx.functional() {
            let act = self.actual(si);
            self.slots[si].model = act.into_iter().map(|x| x.0).collect();
        }
        self.check_slot(si)
    }

    fn dropped_check(&mut self, gone: &[TE], what: &str) -> VResult {
        if !E::HAS_SERIAL {
            return Ok(());
        }
        let s = sim();
        for e in gone {
            if s.serial_state[e.serial as usize] == 1 {
                drop(s);
                vio!(self, "ledger/leak", "{what} did not drop element {:?}", e);
            }
        }
        Ok(())
    }

    pub fn exec_op(&mut self, idx: usize, op: &Op) -> VResult {
        self.ctx.op_index = idx;
        self.ctx.op_kind = format!("{:?}", op.k);
        self.ctx.ops_executed += 1;
        self.ctx.main_recorded = false;
        self.ctx.main_counts = [0; crate::state::NCLASS];
        self.ctx.main_alloc_calls = 0;
        self.ctx.sig.add(op.k as u64);
        let si = (op.s as usize) % self.slots.len();
        let ti = (op.t as usize) % self.slots.len();
        let before = self.shape(si);
        match op.k {
            Kd::Nop => return Ok(()),
            Kd::New | Kd::WithCapacity | Kd::DropSlot => self.op_new(si, op)?,
            Kd::TInsertUnique | Kd::Insert => self.op_insert_unique(si, op)?,
            Kd::TFind | Kd::TFindMut | Kd::Get => self.op_find(si, op)?,
            Kd::TFindEntry | Kd::TRemoveReinsert | Kd::Remove => self.op_find_entry(si, op)?,
            Kd::TEntry => self.op_entry(si, op)?,
            Kd::TIterHash | Kd::TIterHashMut => self.op_iter_hash(si, op)?,
            Kd::TGetMany => self.op_get_many(si, op)?,
            Kd::Clear => self.op_clear(si, op)?,
            Kd::Reserve | Kd::ShrinkTo | Kd::ShrinkToFit => self.op_capacity(si, op)?,
            Kd::TryReserve => self.op_try_reserve(si, op)?,
            Kd::Retain => self.op_retain(si, op)?,
            Kd::ExtractIf => self.op_extract_if(si, op)?,
            Kd::Drain => self.op_drain(si, op)?,
            Kd::Iter => self.op_iter(si, op)?,
            Kd::IntoIter => self.op_into_iter(si, op)?,
            Kd::CloneTo | Kd::CloneFrom => {
                let tb = self.shape(ti);
                self.op_clone(si, ti, op)?;
                self.touch(ti, &tb)?;
            }
            Kd::FillNoAlloc => self.op_fill_no_alloc(si, op)?,
            Kd::Par => self.op_par(si, op)?,
            other => vio!(self, "harness/bad-op", "operation {:?} is not a table operation", other),
        }
        self.touch(si, &before)
    }

    fn op_new(&mut self, si: usize, op: &Op) -> VResult {
        let old = self.slots[si].t.take().unwrap();
        let fc = self.fctx(si, op);
        let out = self.ctx.call(op, move || drop(old));
        let model = std::mem::take(&mut self.slots[si].model);
        self.slots[si].t = Some(HashTable::new_in(SimAlloc::of_slot(si)));
        match out {
            Out::Ok(()) => {}
            Out::Fault(Class::Drop) => {
                self.ctx.drain_callback_violations()?;
                return Ok(());
            }
            other => {
                self.settle(other, si, fc)?;
                return Ok(());
            }
        }
        self.dropped_check(&model, "dropping the table")?;
        let calls0 = sim().alloc_calls;
        let want = if op.k == Kd::WithCapacity { op.a.max(0) as usize } else { 0 };
        let nt: STable<E> = match op.k {
            Kd::WithCapacity => HashTable::with_capacity_in(want, SimAlloc::of_slot(si)),
            Kd::DropSlot => Default::default(),
            _ => HashTable::new_in(SimAlloc::of_slot(si)),
        };
        let calls = sim().alloc_calls - calls0;
        let cap = nt.capacity();
        self.slots[si].t = Some(nt);
        if want == 0 && calls != 0 {
            vio!(self, "cap/alloc-on-new", "constructing an empty table with capacity 0 called the allocator {calls} times");
        }
        if cap < want {
            vio!(self, "cap/with-capacity", "with_capacity({want}) gives capacity() {cap}");
        }
        Ok(())
    }

    fn op_insert_unique(&mut self, si: usize, op: &Op) -> VResult {
        let id = if E::IS_ZST { 0 } else { op.a as u32 };
        let h = self.hash_of(si, id);
        let mut e = E::make(id, h);
        e.set_payload(op.b as u32 & !TTOGGLE);
        let tok = te(&e);
        let mut fc = self.fctx(si, op);
        fc.arg_serials = vec![tok.serial];
        fc.arg_ids = vec![id];
        let room = {
            let t = self.tab(si);
            t.capacity() - t.len()
        };
        if self.slots[si].model.iter().any(|x| x.id == tok.id) {
            sim().probe(Probe::DupElements);
        }
        let t = self.slots[si].t.as_mut().unwrap();
        let out = self.ctx.call(op, || te(t.insert_unique(h, e, hasher::<E>).get()));
        let Some(got) = self.settle(out, si, fc)? else { return Ok(()) };
        if !self.ctx.functional() {
            return Ok(());
        }
        if got != tok {
            vio!(self, "ret/TInsertUnique", "insert_unique returned an entry for {:?}, inserted {:?}", got, tok);
        }
        self.slots[si].model.push(tok);
        if room > 0 && self.ctx.last_alloc_calls > 0 {
            vio!(self, "cap/alloc-with-room", "insert_unique with capacity()-len()={room} called the allocator");
        }
        Ok(())
    }

    fn op_find(&mut self, si: usize, op: &Op) -> VResult {
        let id = if E::IS_ZST { 0 } else { op.a as u32 };
        let h = self.hash_of(si, id);
        let fc = self.fctx(si, op);
        let newp = op.b as u32 & !TTOGGLE;
        let cands: Vec<TE> = self.slots[si].model.iter().filter(|e| e.id == id && e.hash == h).copied().collect();
        if cands.is_empty() {
            let sh = self.shape(si);
            if sh.deleted > 0 && sh.growth_left == 0 {
                sim().probe(Probe::LookupAbsentSaturated);
            }
        }
        let t = self.slots[si].t.as_mut().unwrap();
        let out = if op.k == Kd::TFindMut {
            self.ctx.call(op, || {
                t.find_mut(h, |x| sim_eq(x.id(), id)).map(|x| {
                    let r = (te(x), x.intact());
                    x.set_payload(newp);
                    r
                })
            })
        } else {
            self.ctx.call(op, || t.find(h, |x| sim_eq(x.id(), id)).map(|x| (te(x), x.intact())))
        };
        let Some(got) = self.settle(out, si, fc)? else { return Ok(()) };
        if let Some((_, false)) = got {
            vio!(self, "ledger/invalid-ref", "find handed out a reference to something that is not a live element");
        }
        if !self.ctx.functional() {
            return Ok(());
        }
        match got {
            None => {
                if !cands.is_empty() {
                    vio!(self, format!("ret/{:?}", op.k), "find(hash of {id}) returned None but the model holds {:?}", cands);
                }
            }
            Some((g, _)) => {
                if !cands.contains(&g) {
                    vio!(self, format!("ret/{:?}", op.k), "find(hash of {id}) returned {:?}, which is not among the stored elements with that id {:?}", g, cands);
                }
                if op.k == Kd::TFindMut {
                    if let Some(m) = self.slots[si].model.iter_mut().find(|m| **m == g) {
                        m.payload = if E::IS_ZST { 0 } else { newp };
                    }
                }
            }
        }
        Ok(())
    }

    fn op_find_entry(&mut self, si: usize, op: &Op) -> VResult {
        // b: 0 get, 1 remove, 2 remove then re-insert a new element through the VacantEntry, 3 get_mut, 4 into_mut
        let id = if E::IS_ZST { 0 } else { op.a as u32 };
        let h = self.hash_of(si, id);
        let mode = if op.k == Kd::TRemoveReinsert { 2 } else if op.k == Kd::Remove { 1 } else { op.b.rem_euclid(5) };
        let cands: Vec<TE> = self.slots[si].model.iter().filter(|e| e.id == id && e.hash == h).copied().collect();
        let mut repl = E::make(id, h);
        repl.set_payload(op.c as u32 & !TTOGGLE);
        let rtok = te(&repl);
        let mut fc = self.fctx(si, op);
        fc.arg_serials = vec![rtok.serial];
        fc.arg_ids = vec![id];
        fc.toggles = true;
        let d0 = hashbrown::verif::dump_table(self.tab(si));
        let t = self.slots[si].t.as_mut().unwrap();
        let mut removed: Vec<E> = Vec::new();
        let mut unused: Vec<E> = Vec::new();
        let (rm, un) = (&mut removed, &mut unused);
        // result: (found element, element after op if any)
        let out = self.ctx.call(op, move || match t.find_entry(h, |x| sim_eq(x.id(), id)) {
            Err(absent) => {
                let _ = absent.into_table();
                un.push(repl);
                None
            }
            Ok(mut occ) => {
                let found = (te(occ.get()), occ.get().intact());
                match mode {
                    0 => {
                        un.push(repl);
                        Some((found, None))
                    }
                    1 => {
                        let (old, vac) = occ.remove();
                        rm.push(old);
                        let _ = vac.into_table();
                        un.push(repl);
                        Some((found, None))
                    }
                    2 => {
                        let (old, vac) = occ.remove();
                        rm.push(old);
                        let o2 = vac.insert(repl);
                        Some((found, Some(te(o2.get()))))
                    }
                    3 => {
                        let r = occ.get_mut();
                        r.set_payload(r.payload() ^ Self::TG);
                        un.push(repl);
                        Some((found, Some(te(occ.get()))))
                    }
                    _ => {
                        let r = occ.into_mut();
                        r.set_payload(r.payload() ^ Self::TG);
                        un.push(repl);
                        Some((found, Some(te(r))))
                    }
                }
            }
        });
        let rm_toks: Vec<(TE, bool)> = removed.iter().map(|e| (te(e), e.intact())).collect();
        drop(removed);
        drop(unused);
        let Some(got) = self.settle(out, si, fc)? else { return Ok(()) };
        if rm_toks.iter().any(|x| !x.1) || matches!(got, Some(((_, false), _))) {
            vio!(self, "ledger/invalid-ref", "find_entry handed out an element that is not live");
        }
        if !self.ctx.functional() {
            return Ok(());
        }
        let class = format!("ret/{:?}", op.k);
        match got {
            None => {
                if !cands.is_empty() {
                    vio!(self, class, "find_entry(hash of {id}) is absent but the model holds {:?}", cands);
                }
            }
            Some(((g, _), after)) => {
                if !cands.contains(&g) {
                    vio!(self, class, "find_entry(hash of {id}) found {:?}, not among {:?}", g, cands);
                }
                let pos = self.slots[si].model.iter().position(|m| *m == g).unwrap();
                match mode {
                    0 => {}
                    1 => {
                        if rm_toks.len() != 1 || rm_toks[0].0 != g {
                            vio!(self, class, "OccupiedEntry::remove returned {:?}, expected {:?}", rm_toks, g);
                        }
                        self.slots[si].model.swap_remove(pos);
                    }
                    2 => {
                        sim().probe(Probe::ReinsertSameSlot);
                        if rm_toks.len() != 1 || rm_toks[0].0 != g || after != Some(rtok) {
                            vio!(self, class, "remove + VacantEntry::insert: removed {:?} (expected {:?}), now holds {:?} (expected {:?})", rm_toks, g, after, rtok);
                        }
                        self.slots[si].model[pos] = rtok;
                        // re-insertion in place: the shape of the table must be exactly as before
                        let d1 = hashbrown::verif::dump_table(self.tab(si));
                        if d1.items != d0.items || d1.growth_left != d0.growth_left || d1.bucket_mask != d0.bucket_mask {
                            vio!(self, "reinsert/accounting", "remove followed by insertion through the returned VacantEntry changed items {}->{} / growth_left {}->{} / buckets", d0.items, d1.items, d0.growth_left, d1.growth_left);
                        }
                    }
                    _ => {
                        let mut want = g;
                        want.payload ^= Self::TG;
                        if after != Some(want) {
                            vio!(self, class, "write through get_mut/into_mut: entry now {:?}, expected {:?}", after, want);
                        }
                        self.slots[si].model[pos] = want;
                    }
                }
            }
        }
        Ok(())
    }

    fn op_entry(&mut self, si: usize, op: &Op) -> VResult {
        // c: 0 insert, 1 or_insert, 2 or_insert_with, 3 and_modify + or_insert, 4 drop unused,
        //    5 match: Vacant -> insert, Occupied -> remove
        let id = if E::IS_ZST { 0 } else { op.a as u32 };
        let h = self.hash_of(si, id);
        // 6 match: Vacant -> into_table (entry given up), Occupied -> into_mut + toggle
        let mode = if op.c == 6 { 6 } else { op.c.rem_euclid(6) };
        let cands: Vec<TE> = self.slots[si].model.iter().filter(|e| e.id == id && e.hash == h).copied().collect();
        let mut newe = E::make(id, h);
        newe.set_payload(op.b as u32 & !TTOGGLE);
        let ntok = te(&newe);
        let mut fc = self.fctx(si, op);
        fc.arg_serials = vec![ntok.serial];
        fc.arg_ids = vec![id];
        fc.toggles = true;
        {
            let sh = self.shape(si);
            let t = self.tab(si);
            let mut s = sim();
            if sh.singleton {
                s.probe(Probe::EntryOnSingleton);
            } else if t.capacity() == t.len() {
                s.probe(Probe::EntryAtFullLoad);
                if sh.deleted > 0 {
                    s.probe(Probe::EntryTombstoneSaturated);
                }
            }
        }
        let t = self.slots[si].t.as_mut().unwrap();
        let mut back: Vec<E> = Vec::new();
        let bk = &mut back;
        // result: (was occupied (found element), element the entry holds afterwards, removed?)
        let out = self.ctx.call(op, move || {
            let e = t.entry(h, |x| sim_eq(x.id(), id), hasher::<E>);
            let found = match &e {
                Entry::Occupied(o) => Some(te(o.get())),
                Entry::Vacant(_) => None,
            };
            let after = match mode {
                0 => Some(te(e.insert(newe).get())),
                1 => Some(te(e.or_insert(newe).get())),
                2 => {
                    let mut slot = Some(newe);
                    let r = te(e
                        .or_insert_with(|| {
                            tick(Class::Pred);
                            slot.take().unwrap()
                        })
                        .get());
                    if let Some(x) = slot {
                        bk.push(x);
                    }
                    Some(r)
                }
                3 => Some(te(e
                    .and_modify(|x| {
                        tick(Class::Pred);
                        x.set_payload(x.payload() ^ Self::TG)
                    })
                    .or_insert(newe)
                    .get())),
                4 => {
                    drop(e);
                    bk.push(newe);
                    None
                }
                6 => {
                    bk.push(newe);
                    match e {
                        Entry::Vacant(v) => {
                            let t = v.into_table();
                            let _ = t.len();
                            None
                        }
                        Entry::Occupied(o) => {
                            let x = o.into_mut();
                            x.set_payload(x.payload() ^ Self::TG);
                            Some(te(x))
                        }
                    }
                }
                _ => match e {
                    Entry::Vacant(v) => Some(te(v.insert(newe).get())),
                    Entry::Occupied(o) => {
                        let (old, _vac) = o.remove();
                        bk.push(old);
                        bk.push(newe);
                        None
                    }
                },
            };
            (found, after)
        });
        drop(back);
        let Some((found, after)) = self.settle(out, si, fc)? else { return Ok(()) };
        if !self.ctx.functional() {
            return Ok(());
        }
        let class = "entry/TEntry".to_string();
        match found {
            None if !cands.is_empty() => vio!(self, class, "entry(hash of {id}) is Vacant but the model holds {:?}", cands),
            Some(g) if !cands.contains(&g) => vio!(self, class, "entry(hash of {id}) is Occupied with {:?}, not among {:?}", g, cands),
            _ => {}
        }
        let model = &mut self.slots[si].model;
        let pos = found.and_then(|g| model.iter().position(|m| *m == g));
        let expect_after = match (mode, pos) {
            (0, Some(p)) => {
                // Entry::insert on Occupied replaces the element
                model[p] = ntok;
                Some(ntok)
            }
            (0, None) | (1, None) | (2, None) | (3, None) | (5, None) => {
                model.push(ntok);
                Some(ntok)
            }
            (1, Some(p)) | (2, Some(p)) => Some(model[p]),
            (3, Some(p)) | (6, Some(p)) => {
                model[p].payload ^= Self::TG;
                Some(model[p])
            }
            (6, None) => None,
            (4, _) => {
                sim().probe(Probe::VacantDropped);
                None
            }
            (_, Some(p)) => {
                model.swap_remove(p);
                None
            }
            _ => None,
        };
        if after != expect_after {
            vio!(self, class, "entry(hash of {id}) mode {mode}: entry holds {:?} afterwards, the model expects {:?}", after, expect_after);
        }
        Ok(())
    }

    fn op_iter_hash(&mut self, si: usize, op: &Op) -> VResult {
        let id = if E::IS_ZST { 0 } else { op.a as u32 };
        let h = self.hash_of(si, id);
        let fc = self.fctx(si, op);
        let mutating = op.k == Kd::TIterHashMut;
        let stop_after = if op.c >= 6 { usize::MAX } else { op.c as usize };
        let t = self.slots[si].t.as_mut().unwrap();
        let out = self.ctx.call(op, || {
            let mut v: Vec<TE> = Vec::new();
            if op.c >= 6 && mutating {
                // through fold(); c == 6: after one next()
                let mut it = t.iter_hash_mut(h);
                if op.c == 6 {
                    if let Some(x) = it.next() {
                        v.push(te(x));
                        x.set_payload(x.payload() ^ Self::TG);
                    }
                }
                it.fold((), |(), x| {
                    v.push(te(x));
                    x.set_payload(x.payload() ^ Self::TG);
                });
            } else if op.c >= 6 {
                let mut it = t.iter_hash(h);
                if op.c == 6 {
                    if let Some(x) = it.next() {
                        v.push(te(x));
                    }
                }
                v = it.fold(v, |mut acc, x| {
                    acc.push(te(x));
                    acc
                });
            } else if mutating {
                for x in t.iter_hash_mut(h) {
                    if v.len() >= stop_after {
                        break;
                    }
                    v.push(te(x));
                    x.set_payload(x.payload() ^ Self::TG);
                }
            } else {
                let it = t.iter_hash(h);
                let c = it.clone();
                for x in it {
                    v.push(te(x));
                }
                // a clone taken at the start yields the same elements
                let n2 = c.count();
                if n2 != v.len() {
                    v.push(TE { id: u32::MAX, serial: u32::MAX, hash: 0, payload: n2 as u32 });
                }
            }
            v
        });
        let Some(got) = self.settle(out, si, fc)? else { return Ok(()) };
        if !self.ctx.functional() {
            return Ok(());
        }
        if got.iter().any(|e| e.id == u32::MAX && e.serial == u32::MAX) {
            vio!(self, "iterhash/clone", "a cloned IterHash yielded a different number of elements than the original");
        }
        let model = &mut self.slots[si].model;
        // yields no element twice, nothing that is not stored
        let mut seen: Vec<TE> = Vec::new();
        for g in &got {
            let avail = model.iter().filter(|m| *m == g).count();
            let used = seen.iter().filter(|m| *m == g).count();
            if used >= avail {
                vio!(self, "iterhash/yield", "iter_hash yielded {:?} more often than it is stored ({avail} times)", g);
            }
            seen.push(*g);
        }
        // yields every stored element that was inserted with hash h (when run to the end)
        let want = model.iter().filter(|m| m.hash == h).count();
        let have = got.iter().filter(|g| g.hash == h).count();
        if want > 1 {
            sim().probe(Probe::IterHashMulti);
        }
        if (!mutating || stop_after == usize::MAX) && have != want {
            vio!(self, "iterhash/missing", "iter_hash({h:#x}) yielded {have} of the {want} stored elements inserted with that hash");
        }
        if mutating {
            let mut done = vec![false; model.len()];
            for g in &got {
                if let Some(p) = model.iter().enumerate().position(|(i, m)| !done[i] && m == g) {
                    done[p] = true;
                    model[p].payload ^= Self::TG;
                }
            }
        }
        Ok(())
    }

    fn op_get_many(&mut self, si: usize, op: &Op) -> VResult {
        // v = ids; c: 0 lawful closure, 1 closure matching any element (lying), 2 closure matching by parity
        let ids: Vec<u32> = op.v.iter().take(6).map(|&x| if E::IS_ZST { 0 } else { x as u32 }).collect();
        let n = ids.len();
        let lie = op.c.rem_euclid(3);
        let base = (op.b as u32) & !TTOGGLE;
        let fc = self.fctx(si, op);
        let hashes: Vec<u64> = ids.iter().map(|&i| self.hash_of(si, i)).collect();
        // get_many_unchecked_mut: "no two requests resolve to one entry" is the caller's obligation; that is known
        // only for pairwise different ids, a lawful closure and no id stored twice
        let unchecked = {
            let model = &self.slots[si].model;
            op.c == 3 && self.ctx.functional() && (0..n).all(|i| (0..i).all(|j| ids[i] != ids[j])) && ids.iter().all(|i| model.iter().filter(|m| m.id == *i).count() <= 1)
        };
        if unchecked {
            sim().probe(Probe::GetManyUnchecked);
        }
        let t = self.slots[si].t.as_mut().unwrap();
        type R = Vec<Option<(TE, usize)>>;
        let idr = &ids;
        macro_rules! many {
            ($n:expr) => {{
                let hs: [u64; $n] = std::array::from_fn(|i| hashes[i]);
                let eq = |i: usize, x: &E| {
                    tick(Class::Eq);
                    match lie {
                        0 => x.id() == idr[i],
                        1 => true,
                        _ => x.id() % 2 == idr[i] % 2,
                    }
                };
                let r = if unchecked { unsafe { t.get_many_unchecked_mut(hs, eq) } } else { t.get_many_mut(hs, eq) };
                r.into_iter()
                    .enumerate()
                    .map(|(i, o)| {
                        o.map(|x| {
                            let r = (te(x), x as *mut E as usize);
                            x.set_payload(base + i as u32);
                            r
                        })
                    })
                    .collect::<R>()
            }};
        }
        let out = self.ctx.call(op, || match n {
            0 => many!(0),
            1 => many!(1),
            2 => many!(2),
            3 => many!(3),
            4 => many!(4),
            5 => many!(5),
            _ => many!(6),
        });
        let model = &self.slots[si].model;
        // lawful closure and no duplicate stored ids: we know exactly which entry each request resolves to
        let unique_ids = ids.iter().all(|i| model.iter().filter(|m| m.id == *i).count() <= 1);
        let exact = lie == 0 && unique_ids && self.ctx.functional();
        let dup_present = (0..n).any(|i| (0..i).any(|j| ids[i] == ids[j] && model.iter().any(|m| m.id == ids[i])));
        {
            let mut s = sim();
            if dup_present {
                s.probe(Probe::GetManyDup);
            } else if n > 0 && ids.iter().all(|i| model.iter().any(|m| m.id == *i)) {
                s.probe(Probe::GetManyAllPresent);
            } else {
                s.probe(Probe::GetManyAbsent);
            }
            if lie != 0 {
                s.probe(Probe::ByzEqAnswer);
            }
        }
        let res = match out {
            Out::Panic(msg) => {
                if exact && !dup_present {
                    vio!(self, "getmany/spurious-panic", "get_many_mut({:?}) panicked although no two requests resolve to one entry: {msg}", ids);
                }
                // a lying closure or duplicate requests may legitimately resolve two requests to one entry: must panic
                return Ok(());
            }
            o => {
                let Some(r) = self.settle(o, si, fc)? else { return Ok(()) };
                r
            }
        };
        if !E::IS_ZST {
            for i in 0..res.len() {
                for j in 0..i {
                    if let (Some(a), Some(b)) = (res[i], res[j]) {
                        if a.1 == b.1 {
                            vio!(self, "getmany/alias", "get_many_mut({:?}, closure mode {lie}) returned the same entry for requests {j} and {i}", ids);
                        }
                    }
                }
            }
        }
        // mirror the sentinel writes
        let model = &mut self.slots[si].model;
        for (i, r) in res.iter().enumerate() {
            if let Some((g, _)) = r {
                match model.iter().position(|m| m == g) {
                    Some(p) => model[p].payload = if E::IS_ZST { 0 } else { base + i as u32 },
                    None if self.ctx.functional() && E::HAS_SERIAL => vio!(self, "getmany/wrong-entry", "request {i} returned {:?} which is not stored", g),
                    None => {}
                }
            }
        }
        if exact {
            if dup_present {
                vio!(self, "getmany/no-panic", "get_many_mut({:?}) returned although two requests resolve to the same entry", ids);
            }
            for (i, r) in res.iter().enumerate() {
                let present = self.slots[si].model.iter().any(|m| m.id == ids[i]);
                match r {
                    Some((g, _)) if g.id != ids[i] => vio!(self, "getmany/wrong-entry", "request {i} for id {} returned element {:?}", ids[i], g),
                    None if present => vio!(self, "getmany/presence", "request {i} for stored id {} returned None", ids[i]),
                    Some(_) if !present => vio!(self, "getmany/presence", "request {i} for absent id {} returned an element", ids[i]),
                    _ => {}
                }
            }
        }
        Ok(())
    }

    fn op_clear(&mut self, si: usize, op: &Op) -> VResult {
        let fc = self.fctx(si, op);
        let cap0 = self.tab(si).capacity();
        let size0 = self.tab(si).allocation_size();
        let t = self.slots[si].t.as_mut().unwrap();
        let out = self.ctx.call(op, || t.clear());
        let Some(()) = self.settle(out, si, fc)? else { return Ok(()) };
        let model = std::mem::take(&mut self.slots[si].model);
        if !self.ctx.functional() {
            return Ok(());
        }
        self.dropped_check(&model, "clear()")?;
        if self.ctx.last_alloc_calls + self.ctx.last_dealloc_calls != 0 || self.tab(si).allocation_size() != size0 {
            vio!(self, "cap/clear-changed-allocation", "clear() changed the allocation {} -> {}", size0, self.tab(si).allocation_size());
        }
        if self.tab(si).capacity() < cap0 {
            vio!(self, "cap/clear-lost-capacity", "after clear() capacity() is {} (it was {cap0} before)", self.tab(si).capacity());
        }
        Ok(())
    }

    fn op_capacity(&mut self, si: usize, op: &Op) -> VResult {
        let n = op.a.max(0) as usize;
        let fc = self.fctx(si, op);
        let (len, cap0, size0) = {
            let t = self.tab(si);
            (t.len(), t.capacity(), t.allocation_size())
        };
        let t = self.slots[si].t.as_mut().unwrap();
        let out = match op.k {
            Kd::Reserve => self.ctx.call(op, || t.reserve(n, hasher::<E>)),
            Kd::ShrinkTo => self.ctx.call(op, || t.shrink_to(n, hasher::<E>)),
            _ => self.ctx.call(op, || t.shrink_to_fit(hasher::<E>)),
        };
        let Some(()) = self.settle(out, si, fc)? else { return Ok(()) };
        if !self.ctx.functional() {
            return Ok(());
        }
        let (cap1, size1) = {
            let t = self.tab(si);
            (t.capacity(), t.allocation_size())
        };
        if op.k == Kd::Reserve {
            sim().probe(Probe::ReserveRehash);
            if cap1 < len + n {
                vio!(self, "cap/reserve", "after reserve({n}) capacity()={cap1} < len()+n={}", len + n);
            }
        } else {
            let mreq = if op.k == Kd::ShrinkTo { n } else { 0 };
            if size1 > size0 {
                vio!(self, "cap/shrink-grew", "{:?}({mreq}) enlarged the allocation from {size0} to {size1}", op.k);
            }
            if cap1 < len.max(mreq.min(cap0)) {
                vio!(self, "cap/shrink-floor", "{:?}({mreq}) left capacity()={cap1} < max(len={len}, min(m, old capacity={cap0}))", op.k);
            }
            if len == 0 && mreq == 0 && size1 != 0 {
                vio!(self, "cap/shrink-empty", "{:?}(0) on an empty table keeps {size1} bytes", op.k);
            }
            if !(len == 0 && mreq == 0) {
                let fresh: STable<E> = HashTable::with_capacity_in(len.max(mreq), SimAlloc);
                let fs = fresh.allocation_size();
                drop(fresh);
                if size1 > fs {
                    vio!(self, "cap/shrink-not-tight", "{:?}({mreq}) leaves {size1} bytes (was {size0}), a fresh with_capacity({}) needs {fs}", op.k, len.max(mreq));
                }
            }
        }
        Ok(())
    }

    /// try_reserve on fresh tables of element types so large that a handful of buckets approaches isize::MAX: the
    /// call must fail, and if it asks the allocator at all, then for a valid layout (size rounded up to the
    /// alignment at most isize::MAX; the allocator seam checks that and refuses anything above its ceiling).
    fn op_try_reserve_giant(&mut self, op: &Op) -> VResult {
        use hashbrown::HashTable;
        fn one<G: 'static>(n: usize) -> (bool, Option<(usize, usize)>) {
            let mut t: HashTable<G, SimAlloc> = HashTable::new_in(SimAlloc);
            match t.try_reserve(n, |_| 0) {
                Ok(()) => (true, None),
                Err(hashbrown::TryReserveError::CapacityOverflow) => (false, None),
                Err(hashbrown::TryReserveError::AllocError { layout }) => (false, Some((layout.size(), layout.align()))),
            }
        }
        let n = 1 + (op.a as u64 % 64) as usize;
        let which = op.b.rem_euclid(8);
        sim().probe(Probe::TryReserveGiant);
        let out = self.ctx.call(op, || match which {
            0 => one::<[u32; (1 << 58) - 1]>(n),
            1 => one::<[u8; (1 << 60) - 3]>(n),
            2 => one::<[u64; (1 << 57) - 1]>(n),
            3 => one::<[u16; (1 << 59) - 1]>(n),
            4 => one::<[u8; (1 << 59) + 5]>(n),
            5 => one::<[u64; (1 << 56) + 1]>(n),
            // size * buckets fits in a usize, adding the alignment slack / the control bytes does not
            6 => one::<[u8; (1 << 61) - 1]>(n),
            _ => one::<[u16; (1 << 60) - 1]>(n),
        });
        let (ok, layout) = match out {
            Out::Ok(r) => r,
            Out::Panic(msg) => vio!(self, "tryreserve/panic", "try_reserve({n}) for a giant element type ({which}) panicked: {msg}"),
            _ => vio!(self, "tryreserve/panic", "try_reserve({n}) for a giant element type ({which}) did not return"),
        };
        self.ctx.drain_callback_violations()?;
        if ok {
            vio!(self, "tryreserve/ok-impossible", "try_reserve({n}) for an element type of more than 2^59 bytes returned Ok");
        }
        if let Some(l) = layout {
            if self.ctx.last_refused_layout != Some(l) {
                vio!(self, "tryreserve/wrong-layout", "AllocError carries layout {:?}, the allocator refused {:?}", l, self.ctx.last_refused_layout);
            }
        }
        Ok(())
    }

    fn op_try_reserve(&mut self, si: usize, op: &Op) -> VResult {
        if op.c == 9 {
            return self.op_try_reserve_giant(op);
        }
        let n = op.a as u64 as usize;
        let fc = self.fctx(si, op);
        let (len, cap0, size0) = {
            let t = self.tab(si);
            (t.len(), t.capacity(), t.allocation_size())
        };
        let d0 = hashbrown::verif::dump_table(self.tab(si));
        let blocks0 = sim().blocks.len();
        let dropped0 = sim().dropped;
        let t = self.slots[si].t.as_mut().unwrap();
        let out = self.ctx.call(op, || t.try_reserve(n, hasher::<E>));
        let r = match out {
            Out::Panic(msg) => vio!(self, "tryreserve/panic", "try_reserve({n}) panicked: {msg}"),
            o => {
                let Some(r) = self.settle(o, si, fc)? else { return Ok(()) };
                r
            }
        };
        let esz = std::mem::size_of::<E>() as u128;
        let need = len as u128 + n as u128;
        match r {
            Ok(()) => {
                sim().probe(Probe::TryReserveOk);
                let cap1 = self.tab(si).capacity();
                if (cap1 as u128) < need {
                    vio!(self, "tryreserve/ok-too-small", "try_reserve({n}) returned Ok but capacity()={cap1} < len()+additional={need}");
                }
                if need * esz.max(1) > isize::MAX as u128 {
                    vio!(self, "tryreserve/ok-impossible", "try_reserve({n}) returned Ok for an unrepresentable size");
                }
            }
            Err(ref e) => {
                match *e {
                    hashbrown::TryReserveError::CapacityOverflow => {
                        sim().probe(Probe::CapacityOverflow);
                        if need.saturating_mul(esz + 1).saturating_mul(4) < (isize::MAX as u128) / 4 {
                            vio!(self, "tryreserve/spurious-overflow", "try_reserve({n}) with len {len}, element size {esz} reported CapacityOverflow although the size is comfortably representable");
                        }
                    }
                    hashbrown::TryReserveError::AllocError { ref layout } => {
                        sim().probe(Probe::RefusedAlloc);
                        if need * esz > isize::MAX as u128 {
                            vio!(self, "tryreserve/alloc-for-unrepresentable", "try_reserve({n}) with len {len} and element size {esz} cannot be represented, yet the allocator was asked for {:?} instead of reporting CapacityOverflow", self.ctx.last_refused_layout);
                        }
                        if self.ctx.last_refused == 0 {
                            vio!(self, "tryreserve/phantom-allocerror", "try_reserve({n}) reported AllocError but the allocator refused nothing");
                        }
                        if self.ctx.last_refused_layout != Some((layout.size(), layout.align())) {
                            vio!(self, "tryreserve/wrong-layout", "AllocError carries layout {:?}, the allocator refused {:?}", (layout.size(), layout.align()), self.ctx.last_refused_layout);
                        }
                    }
                }
                let d1 = hashbrown::verif::dump_table(self.tab(si));
                let t = self.tab(si);
                if d1 != d0 || t.len() != len || t.capacity() != cap0 || t.allocation_size() != size0 {
                    vio!(self, "tryreserve/err-changed-state", "a failed try_reserve({n}) changed the table");
                }
                if sim().blocks.len() != blocks0 {
                    vio!(self, "tryreserve/err-leak", "a failed try_reserve({n}) changed the number of live blocks");
                }
                if sim().dropped != dropped0 {
                    vio!(self, "tryreserve/err-dropped", "a failed try_reserve({n}) dropped elements");
                }
            }
        }
        Ok(())
    }

    fn op_retain(&mut self, si: usize, op: &Op) -> VResult {
        let keep: Vec<u32> = op.v.iter().map(|&x| if E::IS_ZST { 0 } else { x as u32 }).collect();
        let toggle = op.b != 0;
        let mut fc = self.fctx(si, op);
        fc.toggles = toggle;
        let mut seen: Vec<TE> = Vec::new();
        let sr = &mut seen;
        let t = self.slots[si].t.as_mut().unwrap();
        let out = self.ctx.call(op, || {
            t.retain(|x| {
                tick(Class::Pred);
                sr.push(te(x));
                if toggle {
                    x.set_payload(x.payload() ^ Self::TG);
                }
                keep.contains(&x.id())
            })
        });
        let Some(()) = self.settle(out, si, fc)? else { return Ok(()) };
        if !self.ctx.functional() {
            return Ok(());
        }
        let mut s1 = seen.clone();
        s1.sort();
        let mut s2 = self.slots[si].model.clone();
        s2.sort();
        if s1 != s2 {
            vio!(self, "retain/visits", "retain called its predicate on {} elements, the table held {}; multisets differ", s1.len(), s2.len());
        }
        let model = &mut self.slots[si].model;
        if toggle {
            for e in model.iter_mut() {
                e.payload ^= Self::TG;
            }
        }
        let removed: Vec<TE> = model.iter().filter(|e| !keep.contains(&e.id)).copied().collect();
        model.retain(|e| keep.contains(&e.id));
        self.dropped_check(&removed, "retain")
    }

    fn op_extract_if(&mut self, si: usize, op: &Op) -> VResult {
        let yes: Vec<u32> = op.v.iter().map(|&x| if E::IS_ZST { 0 } else { x as u32 }).collect();
        let steps = op.a;
        let forget = op.b == 1;
        let toggle = op.c != 0;
        let mut fc = self.fctx(si, op);
        fc.toggles = toggle;
        let mut visited: Vec<TE> = Vec::new();
        let vis = &mut visited;
        let n0 = self.slots[si].model.len();
        let mut hint_errs: Vec<String> = Vec::new();
        let er = &mut hint_errs;
        let t = self.slots[si].t.as_mut().unwrap();
        let out = self.ctx.call(op, || {
            let mut it = t.extract_if(|x| {
                tick(Class::Pred);
                vis.push(te(x));
                if toggle {
                    x.set_payload(x.payload() ^ Self::TG);
                }
                yes.contains(&x.id())
            });
            let (got, errs) = crate::iterdrv::drive_extract(&mut it, steps, n0);
            *er = errs;
            if forget {
                std::mem::forget(it);
            } else {
                drop(it);
            }
            got
        });
        {
            let mut s = sim();
            if forget {
                s.probe(Probe::LeakExtract);
            } else if steps >= 0 {
                s.probe(Probe::EarlyDropExtract);
            }
        }
        let Some(got) = self.settle(out, si, fc)? else { return Ok(()) };
        let mut g: Vec<TE> = got.iter().map(|e| te(e)).collect();
        let intact = got.iter().all(|e| e.intact());
        drop(got);
        if !intact {
            vio!(self, "ledger/invalid-ref", "extract_if yielded an element that is not live");
        }
        if !self.ctx.functional() {
            return Ok(());
        }
        if let Some(e) = hint_errs.into_iter().next() {
            vio!(self, "iterlen/ExtractIf", "{e}");
        }
        let model = &mut self.slots[si].model;
        let total = model.len();
        let mut expect: Vec<TE> = Vec::new();
        for v in &visited {
            match model.iter().position(|m| m == v) {
                Some(p) => {
                    if toggle {
                        model[p].payload ^= Self::TG;
                    }
                    if yes.contains(&v.id) {
                        expect.push(model.swap_remove(p));
                    }
                }
                None => vio!(self, "extract/visit-alien", "extract_if visited {:?} which is not in the table (or visited it twice)", v),
            }
        }
        g.sort();
        expect.sort();
        if g != expect {
            vio!(self, "extract/yield", "extract_if yielded {:?}, expected exactly the visited elements answered true {:?}", g, expect);
        }
        if steps < 0 && visited.len() != total {
            vio!(self, "extract/visits", "an exhausted extract_if visited {} of {} elements", visited.len(), total);
        }
        Ok(())
    }

    fn op_drain(&mut self, si: usize, op: &Op) -> VResult {
        let steps = op.a;
        let forget = op.b == 1;
        // b == 2: after the next() calls the rest is consumed through fold()
        let fold = op.b == 2;
        let fc = self.fctx(si, op);
        let cap0 = self.tab(si).capacity();
        let size0 = self.tab(si).allocation_size();
        let n0 = self.slots[si].model.len();
        let t = self.slots[si].t.as_mut().unwrap();
        let out = self.ctx.call(op, || {
            let mut it = t.drain();
            let mut got: Vec<E> = Vec::new();
            let mut errs: Vec<String> = Vec::new();
            let mut n = 0usize;
            loop {
                let rem = n0 - n.min(n0);
                if it.len() != rem || it.size_hint() != (rem, Some(rem)) {
                    errs.push(format!("after {n} items drain reports len {} size_hint {:?}, true remaining {rem}", it.len(), it.size_hint()));
                    break;
                }
                if steps >= 0 && n as i64 >= steps {
                    break;
                }
                match it.next() {
                    Some(x) => got.push(x),
                    None => break,
                }
                n += 1;
            }
            if fold {
                sim().probe(Probe::DrainFold);
                got = it.fold(got, |mut acc, x| {
                    acc.push(x);
                    acc
                });
            } else if forget {
                std::mem::forget(it);
            } else {
                drop(it);
            }
            (got, errs)
        });
        {
            let mut s = sim();
            if forget {
                s.probe(Probe::LeakDrain);
            } else if steps >= 0 && !fold {
                s.probe(Probe::EarlyDropDrain);
            }
        }
        let Some((got, errs)) = self.settle(out, si, fc)? else { return Ok(()) };
        let mut g: Vec<TE> = got.iter().map(|e| te(e)).collect();
        let intact = got.iter().all(|e| e.intact());
        drop(got);
        if !intact {
            vio!(self, "ledger/invalid-ref", "drain yielded an element that is not live");
        }
        let model = std::mem::take(&mut self.slots[si].model);
        let rest = {
            let mut r = model.clone();
            for x in &g {
                if let Some(p) = r.iter().position(|m| m == x) {
                    r.swap_remove(p);
                }
            }
            r
        };
        if forget {
            if size0 > 0 {
                self.ctx.leaked_bytes += size0 as u64;
                self.ctx.leaked_blocks += 1;
            }
            for e in &rest {
                if E::HAS_SERIAL {
                    self.ctx.leaked_serials.insert(e.serial);
                } else if E::HAS_DROP {
                    self.ctx.leaked_ms += 1;
                }
            }
        }
        if !self.ctx.functional() {
            return Ok(());
        }
        if let Some(e) = errs.into_iter().next() {
            vio!(self, "iterlen/Drain", "{e}");
        }
        if g.len() + rest.len() != model.len() {
            vio!(self, "drain/yield", "drain yielded elements that were not in the table, or one twice");
        }
        let complete = fold || steps < 0 || steps as usize >= n0;
        g.sort();
        if complete && g.len() != model.len() {
            vio!(self, "drain/yield", "a fully consumed drain yielded {} elements, the table held {}", g.len(), model.len());
        }
        if !forget {
            self.dropped_check(&rest, "dropping the drain")?;
        }
        let t = self.tab(si);
        if t.len() != 0 {
            vio!(self, "drain/not-empty", "after drain the table has len() {}", t.len());
        }
        if !forget && (t.allocation_size() != size0 || self.ctx.last_alloc_calls + self.ctx.last_dealloc_calls != 0) {
            vio!(self, "drain/allocation", "drain changed the allocation: {} -> {} bytes", size0, t.allocation_size());
        }
        if !forget && self.tab(si).capacity() < cap0 {
            vio!(self, "drain/capacity-lost", "after drain capacity() is {} although the collection is empty and keeps its allocation (it was {cap0} before)", self.tab(si).capacity());
        }
        Ok(())
    }

    fn op_iter(&mut self, si: usize, op: &Op) -> VResult {
        // a: 0 iter, 1 iter_mut, 2 (&t).into_iter(), 3 (&mut t).into_iter(), 4.. defaults
        let plan = IterPlan::from_v(&op.v);
        let which = op.a.rem_euclid(8);
        let total = self.slots[si].model.len();
        let mut fc = self.fctx(si, op);
        fc.toggles = true;
        let touched: std::cell::RefCell<Vec<TE>> = std::cell::RefCell::new(Vec::new());
        let tch = &touched;
        let t = self.slots[si].t.as_mut().unwrap();
        let out = self.ctx.call(op, || match which {
            0 => drive(t.iter().map(|x| item(x)), total, &plan, Some(&|i| i.clone())),
            1 | 3 => {
                let f = |x: &mut E| {
                    let r = item(x);
                    tch.borrow_mut().push(te(x));
                    x.set_payload(x.payload() ^ Self::TG);
                    r
                };
                if which == 1 {
                    drive(t.iter_mut().map(f), total, &plan, None)
                } else {
                    drive((&mut *t).into_iter().map(f), total, &plan, None)
                }
            }
            2 => drive((&*t).into_iter().map(|x| item(x)), total, &plan, Some(&|i| i.clone())),
            4 => drive(hashbrown::hash_table::Iter::<E>::default().map(|x| item(x)), 0, &plan, Some(&|i| i.clone())),
            5 => drive(hashbrown::hash_table::IterMut::<E>::default().map(|x| item(x)), 0, &plan, None),
            6 => {
                let n = hashbrown::hash_table::IterHash::<E>::default().count() + hashbrown::hash_table::IterHashMut::<E>::default().count();
                let mut l = crate::iterdrv::IterLog::default();
                if n != 0 {
                    l.errs.push("default IterHash yields elements".into());
                }
                l
            }
            _ => drive(t.iter().map(|x| item(x)), total, &plan, Some(&|i| i.clone())),
        });
        let touched = touched.into_inner();
        if (4..=6).contains(&which) {
            sim().probe(Probe::IterDefault);
        }
        if plan.finish == 4 {
            sim().probe(Probe::LeakIter);
        }
        let Some(log) = self.settle(out, si, fc)? else { return Ok(()) };
        if !self.ctx.functional() {
            if let Some(e) = log.errs.first() {
                vio!(self, "iterlen/Iter", "table iterator kind {which}: {e}");
            }
            return Ok(());
        }
        if which == 6 {
            if let Some(e) = log.errs.first() {
                vio!(self, "iter/Iter", "{e}");
            }
            return Ok(());
        }
        let model: Vec<Item> = if (4..=5).contains(&which) { Vec::new() } else { self.slots[si].model.iter().map(te_item).collect() };
        if let Some(e) = judge(&log, &model, &plan) {
            vio!(self, "iter/Iter", "table iterator kind {which}, plan {:?}: {e}", plan);
        }
        if matches!(which, 1 | 3) {
            let model = &mut self.slots[si].model;
            let mut done = vec![false; model.len()];
            for g in touched {
                if let Some(p) = model.iter().enumerate().position(|(i, m)| !done[i] && *m == g) {
                    done[p] = true;
                    model[p].payload ^= Self::TG;
                }
            }
        }
        Ok(())
    }

    fn op_into_iter(&mut self, si: usize, op: &Op) -> VResult {
        let plan = IterPlan::from_v(&op.v);
        let which = op.a.rem_euclid(2);
        let total = self.slots[si].model.len();
        let fc = self.fctx(si, op);
        if which == 1 {
            // default-constructed owning iterator
            sim().probe(Probe::IterDefault);
            let out = self.ctx.call(op, || drive(hashbrown::hash_table::IntoIter::<E, SimAlloc>::default().map(|x| item(&x)), 0, &plan, None));
            let Some(log) = self.settle(out, si, fc)? else { return Ok(()) };
            if let Some(e) = judge(&log, &[], &plan) {
                vio!(self, "iter/IntoIter", "default-constructed table IntoIter: {e}");
            }
            return Ok(());
        }
        let model = std::mem::take(&mut self.slots[si].model);
        let size0 = self.tab(si).allocation_size() as u64;
        let t = self.slots[si].t.replace(HashTable::new_in(SimAlloc::of_slot(si))).unwrap();
        let mut owned: Vec<E> = Vec::new();
        let ow = &mut owned;
        let out = self.ctx.call(op, move || {
            drive(
                t.into_iter().map(|x| {
                    let r = item(&x);
                    ow.push(x);
                    r
                }),
                total,
                &plan,
                None,
            )
        });
        let intact = owned.iter().all(|e| e.intact());
        drop(owned);
        {
            let mut s = sim();
            match plan.finish {
                4 => s.probe(Probe::LeakIntoIter),
                3 => s.probe(Probe::EarlyDropIntoIter),
                _ => {}
            }
        }
        let log = match out {
            Out::Ok(l) => l,
            Out::Fault(_) => {
                self.ctx.drain_callback_violations()?;
                return Ok(());
            }
            other => {
                self.settle(other, si, fc)?;
                return Ok(());
            }
        };
        if !intact {
            vio!(self, "ledger/invalid-ref", "the table IntoIter yielded an element that is not live");
        }
        let proj: Vec<Item> = model.iter().map(te_item).collect();
        if self.ctx.functional() {
            if let Some(e) = judge(&log, &proj, &plan) {
                vio!(self, "iter/IntoIter", "table IntoIter, plan {:?}: {e}", plan);
            }
        }
        if plan.finish == 4 {
            let visited: Vec<Item> = log.head.iter().chain(log.tail.iter()).copied().collect();
            let rest = crate::iterdrv::multiset_minus(&proj, &visited);
            for it in &rest {
                if E::HAS_SERIAL {
                    self.ctx.leaked_serials.insert(it.1);
                } else if E::HAS_DROP {
                    self.ctx.leaked_ms += 1;
                }
            }
            if size0 > 0 {
                self.ctx.leaked_bytes += size0;
                self.ctx.leaked_blocks += 1;
            }
        } else {
            self.dropped_check(&model, "consuming/dropping the table IntoIter")?;
        }
        Ok(())
    }

    fn op_clone(&mut self, si: usize, ti: usize, op: &Op) -> VResult {
        if si == ti {
            return Ok(());
        }
        let mut fc = self.fctx(ti, op);
        fc.fresh_ok = true;
        fc.arg_ids = self.slots[si].model.iter().map(|e| e.id).collect();
        let src_model = self.slots[si].model.clone();
        let created0 = sim().created;
        let out = if op.k == Kd::CloneTo {
            let old = self.slots[ti].t.replace(HashTable::new_in(SimAlloc::of_slot(ti))).unwrap();
            drop(old);
            self.slots[ti].model.clear();
            fc.before.clear();
            let src = self.slots[si].t.as_ref().unwrap();
            match self.ctx.call(op, || src.clone()) {
                Out::Ok(t) => {
                    self.slots[ti].t = Some(t);
                    Out::Ok(())
                }
                Out::Fault(c) => Out::Fault(c),
                Out::Ceiling(n) => Out::Ceiling(n),
                Out::Diverge(n) => Out::Diverge(n),
                Out::Panic(p) => Out::Panic(p),
            }
        } else {
            let (a, b) = if si < ti {
                let (l, r) = self.slots.split_at_mut(ti);
                (&l[si], &mut r[0])
            } else {
                let (l, r) = self.slots.split_at_mut(si);
                (&r[0], &mut l[ti])
            };
            let src = a.t.as_ref().unwrap();
            let dst = b.t.as_mut().unwrap();
            self.ctx.call(op, || dst.clone_from(src))
        };
        let old_model = self.slots[ti].model.clone();
        let Some(()) = self.settle(out, ti, fc)? else { return Ok(()) };
        self.slots[ti].plan = self.slots[si].plan.clone();
        let act = self.actual(ti);
        if self.ctx.functional() {
            let mut a: Vec<(u32, u64, u32)> = act.iter().map(|x| (x.0.id, x.0.hash, x.0.payload)).collect();
            a.sort();
            let mut b: Vec<(u32, u64, u32)> = src_model.iter().map(|e| (e.id, e.hash, e.payload)).collect();
            b.sort();
            if a != b {
                vio!(self, format!("clone/{:?}", op.k), "the cloned table holds {} elements that differ from the source's {}", a.len(), b.len());
            }
            if E::HAS_SERIAL && act.iter().any(|(e, _)| src_model.iter().any(|s| s.serial == e.serial)) {
                vio!(self, format!("clone/{:?}", op.k), "the clone shares an element instance with the source");
            }
            let made = sim().created - created0;
            if E::HAS_DROP && made != src_model.len() as u64 {
                vio!(self, format!("clone/{:?}", op.k), "cloning {} elements created {made} element instances", src_model.len());
            }
            self.dropped_check(&old_model, "clone_from (old target contents)")?;
        }
        self.slots[ti].model = act.into_iter().map(|x| x.0).collect();
        Ok(())
    }

    fn op_fill_no_alloc(&mut self, si: usize, op: &Op) -> VResult {
        let room = {
            let t = self.tab(si);
            (t.capacity() - t.len()).min(4096)
        };
        let len = self.tab(si).len();
        for done in 0..room {
            let id = if E::IS_ZST { 0 } else { (op.a as u32).wrapping_add(done as u32 * 3 + 100_000) };
            let h = self.hash_of(si, id);
            let e = E::make(id, h);
            let tok = te(&e);
            let mut fc = self.fctx(si, op);
            fc.arg_serials = vec![tok.serial];
            fc.arg_ids = vec![id];
            let t = self.slots[si].t.as_mut().unwrap();
            let out = self.ctx.call(op, || {
                t.insert_unique(h, e, hasher::<E>);
            });
            let Some(()) = self.settle(out, si, fc)? else { return Ok(()) };
            self.slots[si].model.push(tok);
            if self.ctx.last_alloc_calls != 0 && self.ctx.functional() {
                vio!(self, "cap/alloc-with-room", "insert number {} of {room} into spare capacity (len {len}) called the allocator", done + 1);
            }
        }
        if room > 0 {
            sim().probe(Probe::InsertAtFullLoad);
        }
        Ok(())
    }
}

impl<E: ElemT> World for TableWorld<E> {
    fn exec(&mut self, idx: usize, op: &Op) -> Result<(), Violation> {
        self.exec_op(idx, op)
    }
    fn ctx(&mut self) -> &mut RunCtx {
        &mut self.ctx
    }
    fn view(&self) -> WorldView {
        WorldView {
            slots: self
                .slots
                .iter()
                .enumerate()
                .map(|(i, s)| {
                    let sh = self.shape(i);
                    let t = s.t.as_ref().unwrap();
                    SlotView { ids: s.model.iter().map(|e| e.id).collect(), len: t.len(), cap: t.capacity(), buckets: sh.buckets, growth_left: sh.growth_left, deleted: sh.deleted, singleton: sh.singleton, width: sh.width }
                })
                .collect(),
            universe: u32::MAX,
        }
    }
    fn finish(&mut self) -> Result<(), Violation> {
        self.ctx.op_index = usize::MAX;
        self.ctx.op_kind = "Finish".into();
        let nop = Op::new(Kd::Nop);
        for i in 0..self.slots.len() {
            if self.ctx.functional() {
                self.sweep(i)?;
            }
            let t = self.slots[i].t.take();
            match self.ctx.call(&nop, move || drop(t)) {
                Out::Ok(()) => {}
                _ => return Err(self.ctx.violation("panic/Drop", "dropping the table panicked".into())),
            }
        }
        self.ctx.drain_callback_violations()?;
        let s = sim();
        let findings = crate::alloc::audit(&s);
        let live = s.live_serials as i64 + s.ms_live_total();
        let nblocks = s.blocks.len() as u64;
        let bytes = crate::alloc::live_bytes(&s);
        let leaked_live = self.ctx.leaked_serials.iter().filter(|&&x| s.serial_state[x as usize] == 1).count() as i64 + self.ctx.leaked_ms;
        drop(s);
        if let Some((c, d)) = findings.into_iter().next() {
            return Err(self.ctx.violation(&c, d));
        }
        if self.ctx.drop_fault_fired {
            return Ok(());
        }
        if live != leaked_live {
            return Err(self.ctx.violation("ledger/leak", format!("{live} elements still live after everything was dropped, {leaked_live} of them deliberately leaked")));
        }
        if nblocks != self.ctx.leaked_blocks || bytes != self.ctx.leaked_bytes {
            return Err(self.ctx.violation("alloc/leak", format!("{nblocks} blocks ({bytes} bytes) still allocated after everything was dropped, {} deliberately leaked", self.ctx.leaked_blocks)));
        }
        Ok(())
    }
}
