//! C18 in-run monitor: every scanner primitive of the compiled-in back-end (through the hook
//! wrappers) must equal its byte-by-byte definition on windows of control bytes that simulated
//! histories actually reach.

use crate::state::{sim, Probe};
use hashbrown::verif::{verif_group_scan, VerifDump};

fn reference(bytes: &[u8], tag: u8) -> (Vec<usize>, Vec<usize>, Vec<usize>, Vec<usize>, Vec<u8>) {
    let mut mt = Vec::new();
    let mut me = Vec::new();
    let mut med = Vec::new();
    let mut mf = Vec::new();
    let mut conv = Vec::new();
    for (i, &b) in bytes.iter().enumerate() {
        if b == tag {
            mt.push(i);
        }
        if b == 0xFF {
            me.push(i);
        }
        if b & 0x80 != 0 {
            med.push(i);
            conv.push(0xFF);
        } else {
            mf.push(i);
            conv.push(0x80);
        }
    }
    (mt, me, med, mf, conv)
}

fn queries(idx: &[usize], w: usize) -> (bool, Option<usize>, usize, usize) {
    match (idx.first(), idx.last()) {
        (Some(&lo), Some(&hi)) => (true, Some(lo), lo, w - 1 - hi),
        _ => (false, None, w, w),
    }
}

/// Checks up to `budget` windows of the dump. Returns a (class, detail) finding.
pub fn check(d: &VerifDump, salt: u64, budget: usize) -> Option<(String, String)> {
    let w = d.group_width;
    let n = d.ctrl.len();
    if n < w {
        return None;
    }
    let mut starts: Vec<usize> = Vec::new();
    // aligned windows (what the table itself loads) ...
    let mut s = 0;
    while s + w <= n && starts.len() < budget / 2 {
        starts.push(s);
        s += w;
    }
    // ... and unaligned ones (probe positions are arbitrary)
    let mut x = salt | 1;
    while starts.len() < budget && n > w {
        x = crate::rng::splitmix(x);
        starts.push((x % (n - w + 1) as u64) as usize);
    }
    for &st in &starts {
        let win = &d.ctrl[st..st + w];
        // tags worth matching: those present, their low-bit neighbours, and the carry-sensitive extremes
        let mut present: Vec<u8> = win.iter().copied().filter(|b| *b & 0x80 == 0).collect();
        present.sort();
        present.dedup();
        // a rotating sample of the tags present keeps the monitor cheap; over a run all of them get their turn
        let rot = (salt as usize).wrapping_add(st) % present.len().max(1);
        present.rotate_left(rot);
        present.truncate(3);
        let mut tags: Vec<u8> = present.iter().flat_map(|b| [*b, *b ^ 1]).collect();
        tags.extend_from_slice(&[0x00, 0x01, 0x7e, 0x7f]);
        tags.sort();
        tags.dedup();
        for aligned in [(salt as usize + st) % 2 == 0] {
            for &t in &tags {
                let got = verif_group_scan(win, t, aligned);
                let (mt, me, med, mf, conv) = reference(win, t);
                // match_tag: exact, except that the portable scanner may add bytes equal to tag^1 above a true match
                let extra: Vec<usize> = got.match_tag.iter().copied().filter(|i| !mt.contains(i)).collect();
                let missing = mt.iter().any(|i| !got.match_tag.contains(i));
                let extra_ok = extra.iter().all(|&j| w == 8 && win[j] ^ t == 1 && mt.iter().any(|&i| i < j));
                let sorted = got.match_tag.windows(2).all(|p| p[0] < p[1]);
                if missing || !extra_ok || !sorted {
                    return Some(("group/match_tag".into(), format!("width {w}: match_tag({t:#x}) on {:02x?} reports {:?}, byte-by-byte {:?}", win, got.match_tag, mt)));
                }
                if !extra.is_empty() {
                    sim().probe(Probe::MatchTagFalsePositive);
                }
                if got.match_empty != me {
                    return Some(("group/match_empty".into(), format!("width {w}: match_empty on {:02x?} reports {:?}, byte-by-byte {:?}", win, got.match_empty, me)));
                }
                if got.match_empty_or_deleted != med {
                    return Some(("group/match_empty_or_deleted".into(), format!("width {w}: on {:02x?} reports {:?}, byte-by-byte {:?}", win, got.match_empty_or_deleted, med)));
                }
                if got.match_full != mf {
                    return Some(("group/match_full".into(), format!("width {w}: match_full on {:02x?} reports {:?}, byte-by-byte {:?}", win, got.match_full, mf)));
                }
                let want_q = [queries(&me, w), queries(&med, w), queries(&mf, w)];
                if got.queries != want_q {
                    return Some(("group/bitmask".into(), format!("width {w}: BitMask queries (any, lowest, trailing_zeros, leading_zeros) on {:02x?} are {:?}, expected {:?}", win, got.queries, want_q)));
                }
                if got.converted != conv {
                    return Some(("group/convert".into(), format!("width {w}: convert_special_to_empty_and_full_to_deleted on {:02x?} gives {:02x?}, expected {:02x?}", win, got.converted, conv)));
                }
            }
        }
    }
    None
}
