//! Seam S1: the hash plan. A plan maps a key id to a 64-bit hash; hashbrown uses the low
//! bits as the probe start (position) and the top 7 bits as the control tag.

use crate::rng::{splitmix, Rng};
use crate::state::{sim, Probe};
use serde::{Deserialize, Serialize};
use std::hash::{BuildHasher, Hasher};

#[derive(Clone, Debug, PartialEq, Eq, Serialize, Deserialize)]
pub enum Plan {
    /// Well mixed.
    Mixed(u64),
    Const0,
    ConstMax,
    /// Position = id (consecutive ids pack one contiguous run), tag mixed.
    Seq,
    /// Position = id * stride + offset, tag from a small set.
    SeqTag { stride: u32, offset: u32, tags: Vec<u8> },
    /// Position bits drawn from `pos` (by id), tag from `tags`; below `layer` bits the position
    /// is exactly the chosen one, above that the bits are mixed so that growth separates keys.
    PosTag { pos: Vec<u32>, tags: Vec<u8>, layer: u8, seed: u64 },
    /// Position = (id / 1000) * stride: all ids of one band of 1000 share a home position, bands are
    /// `stride` buckets apart. Bands larger than a group overflow into the next band's home group, so
    /// groups fill up with displaced elements.
    Bands { stride: u32 },
    /// Byzantine: a fresh pseudo-random value on every call.
    ByzFresh,
    /// Byzantine: lawful `Mixed` answer, but every `period`-th call returns something else.
    ByzFlip { seed: u64, period: u32 },
    /// Byzantine: hash depends on how many hashes were computed so far (changes after growth).
    ByzEpoch { seed: u64, every: u32 },
}

impl Plan {
    pub fn is_byzantine(&self) -> bool {
        matches!(self, Plan::ByzFresh | Plan::ByzFlip { .. } | Plan::ByzEpoch { .. })
    }

    /// The lawful hash of `id`. Byzantine plans consult the global PRNG / counters.
    pub fn hash(&self, id: u32) -> u64 {
        match self {
            Plan::Mixed(seed) => splitmix(*seed ^ (id as u64).wrapping_mul(0x9E37_79B9_7F4A_7C15)),
            Plan::Const0 => 0,
            Plan::ConstMax => u64::MAX,
            Plan::Seq => ((splitmix(id as u64) & 0x7f) << 57) | id as u64,
            Plan::Bands { stride } => ((splitmix(id as u64) & 0x7f) << 57) | ((id as u64 / 1000) * (*stride as u64)),
            Plan::SeqTag { stride, offset, tags } => {
                let t = if tags.is_empty() { (splitmix(id as u64) & 0x7f) as u8 } else { tags[id as usize % tags.len()] & 0x7f };
                ((t as u64) << 57) | ((id as u64) * (*stride as u64) + *offset as u64)
            }
            Plan::PosTag { pos, tags, layer, seed } => {
                let m = splitmix(*seed ^ id as u64);
                let p = if pos.is_empty() { (m >> 7) as u32 } else { pos[id as usize % pos.len()] } as u64;
                let t = if tags.is_empty() { (m & 0x7f) as u8 } else { tags[(id as usize / pos.len().max(1)) % tags.len()] & 0x7f };
                let layer = (*layer).min(57) as u32;
                let low_mask = if layer == 0 { 0 } else { (1u64 << layer) - 1 };
                let mid_mask = ((1u64 << 57) - 1) & !low_mask;
                ((t as u64) << 57) | ((m << layer) & mid_mask) | (p & low_mask)
            }
            Plan::ByzFresh => {
                let mut s = sim();
                s.probe(Probe::ByzHashAnswer);
                s.byz_rng.next()
            }
            Plan::ByzFlip { seed, period } => {
                let mut s = sim();
                let n = s.total_counts[crate::state::Class::Hash as usize];
                if *period > 0 && n % (*period as u64) == 0 {
                    s.probe(Probe::ByzHashAnswer);
                    s.byz_rng.next()
                } else {
                    splitmix(*seed ^ id as u64)
                }
            }
            Plan::ByzEpoch { seed, every } => {
                let s = sim();
                let n = s.total_counts[crate::state::Class::Hash as usize];
                let epoch = n / (*every).max(1) as u64;
                drop(s);
                splitmix(*seed ^ id as u64 ^ epoch.wrapping_mul(0xABCD_EF12_3456))
            }
        }
    }

    /// Draws a random lawful plan (swarm style).
    pub fn random(rng: &mut Rng) -> Plan {
        match rng.below(14) {
            12 | 13 => Plan::Bands { stride: *rng.pick(&[16u32, 16, 8, 4, 32]) },
            0 | 1 | 2 => Plan::Mixed(rng.next()),
            3 => Plan::Const0,
            4 => Plan::ConstMax,
            5 | 6 => Plan::Seq,
            7 => {
                let tags = match rng.below(3) {
                    0 => vec![],
                    1 => {
                        let t = rng.below(128) as u8;
                        vec![t, t ^ 1]
                    }
                    _ => vec![rng.below(128) as u8],
                };
                Plan::SeqTag { stride: *rng.pick(&[1, 1, 2, 8, 16]), offset: rng.below(64) as u32, tags }
            }
            _ => {
                let npos = *rng.pick(&[1usize, 2, 3, 8, 16, 0]);
                let pos: Vec<u32> = (0..npos).map(|_| rng.below(4096) as u32).collect();
                let tags = match rng.below(5) {
                    0 => vec![rng.below(128) as u8],
                    1 => {
                        let t = rng.below(128) as u8;
                        vec![t, t ^ 1]
                    }
                    2 => vec![0x00, 0x01],
                    3 => vec![0x7e, 0x7f],
                    _ => vec![],
                };
                Plan::PosTag { pos, tags, layer: *rng.pick(&[57u8, 57, 3, 4, 5, 6, 8]), seed: rng.next() }
            }
        }
    }

    pub fn random_byz(rng: &mut Rng) -> Plan {
        match rng.below(3) {
            0 => Plan::ByzFresh,
            1 => Plan::ByzFlip { seed: rng.next(), period: rng.range(2, 9) as u32 },
            _ => Plan::ByzEpoch { seed: rng.next(), every: rng.range(3, 40) as u32 },
        }
    }
}

#[derive(Clone, Debug)]
pub struct SimBuildHasher {
    pub plan: std::sync::Arc<Plan>,
}

impl SimBuildHasher {
    pub fn new(plan: Plan) -> SimBuildHasher {
        SimBuildHasher { plan: std::sync::Arc::new(plan) }
    }
}

impl Default for SimBuildHasher {
    fn default() -> Self {
        SimBuildHasher::new(Plan::Mixed(0))
    }
}

pub struct SimHasher {
    plan: std::sync::Arc<Plan>,
    id: u32,
}

impl BuildHasher for SimBuildHasher {
    type Hasher = SimHasher;
    fn build_hasher(&self) -> SimHasher {
        SimHasher { plan: self.plan.clone(), id: 0 }
    }
    /// The provided method, overridden with a *different* deterministic function: a collection may hash through
    /// either way, but must not hash some keys one way and re-hash stored ones the other way.
    fn hash_one<T: std::hash::Hash>(&self, x: T) -> u64 {
        let mut h = self.build_hasher();
        x.hash(&mut h);
        h.finish().rotate_left(17) ^ 0x5bd1_e995_9e37_79b9
    }
}

impl Hasher for SimHasher {
    fn finish(&self) -> u64 {
        self.plan.hash(self.id)
    }
    fn write(&mut self, bytes: &[u8]) {
        for &b in bytes {
            self.id = self.id.wrapping_mul(31).wrapping_add(b as u32);
        }
    }
    fn write_u32(&mut self, i: u32) {
        self.id = i;
    }
}
