//! Structural invariants I1..I4 on the hook dump. All are independent of the hash function.

use hashbrown::verif::VerifDump;

pub const EMPTY: u8 = 0xFF;
pub const DELETED: u8 = 0x80;

#[derive(Clone, Debug, Default, PartialEq, Eq)]
pub struct Shape {
    pub buckets: usize,
    pub items: usize,
    pub growth_left: usize,
    pub empty: usize,
    pub deleted: usize,
    pub full: usize,
    pub width: usize,
    pub singleton: bool,
}

pub fn shape(d: &VerifDump) -> Shape {
    let buckets = d.bucket_mask + 1;
    let mut sh = Shape {
        buckets,
        items: d.items,
        growth_left: d.growth_left,
        width: d.group_width,
        singleton: d.is_empty_singleton,
        ..Default::default()
    };
    if d.is_empty_singleton {
        // the one pseudo-bucket is EMPTY
        sh.empty = 1;
        return sh;
    }
    for &c in &d.ctrl[..buckets] {
        if c == EMPTY {
            sh.empty += 1;
        } else if c == DELETED {
            sh.deleted += 1;
        } else if c & 0x80 == 0 {
            sh.full += 1;
        }
    }
    sh
}

/// Checks I1..I4; returns (class, detail) findings.
pub fn check(d: &VerifDump) -> Vec<(String, String)> {
    let mut out = Vec::new();
    let buckets = d.bucket_mask.wrapping_add(1);
    let w = d.group_width;
    if buckets == 0 || !buckets.is_power_of_two() {
        out.push(("inv/I1".into(), format!("bucket count {buckets} is not a power of two")));
        return out;
    }
    if d.is_empty_singleton {
        if d.items != 0 || d.growth_left != 0 {
            out.push(("inv/I1".into(), format!("unallocated table with items={} growth_left={}", d.items, d.growth_left)));
        }
        if d.ctrl.iter().any(|&c| c != EMPTY) {
            out.push(("inv/I3".into(), "static empty group contains a non-EMPTY byte".into()));
        }
        return out;
    }
    if d.ctrl.len() != buckets + w {
        out.push(("inv/I1".into(), format!("control byte count {} != buckets {} + width {}", d.ctrl.len(), buckets, w)));
        return out;
    }
    let sh = shape(d);
    // every control byte is EMPTY, DELETED or a 7-bit tag
    for (i, &c) in d.ctrl.iter().enumerate() {
        if c & 0x80 != 0 && c != EMPTY && c != DELETED {
            out.push(("inv/I3".into(), format!("control byte {i} has invalid value {c:#x}")));
            break;
        }
    }
    if sh.full != d.items {
        out.push(("inv/I2".into(), format!("items={} but {} full control bytes (buckets={})", d.items, sh.full, buckets)));
    }
    // mirror
    if buckets >= w {
        for i in 0..w {
            if d.ctrl[buckets + i] != d.ctrl[i] {
                out.push(("inv/I3".into(), format!("mirror byte {} = {:#x} differs from byte {} = {:#x}", buckets + i, d.ctrl[buckets + i], i, d.ctrl[i])));
                break;
            }
        }
    } else {
        for i in 0..buckets {
            if d.ctrl[w + i] != d.ctrl[i] {
                out.push(("inv/I3".into(), format!("small-table mirror byte {} = {:#x} differs from byte {} = {:#x}", w + i, d.ctrl[w + i], i, d.ctrl[i])));
                break;
            }
        }
        for i in buckets..w {
            if d.ctrl[i] != EMPTY {
                out.push(("inv/I3".into(), format!("gap byte {} of a table smaller than a group is {:#x}, not EMPTY", i, d.ctrl[i])));
                break;
            }
        }
    }
    if sh.empty == 0 {
        out.push(("inv/I4".into(), format!("no EMPTY bucket left (buckets={}, items={}, deleted={})", buckets, d.items, sh.deleted)));
    } else if d.growth_left >= sh.empty {
        out.push(("inv/I4".into(), format!("growth_left={} but only {} EMPTY buckets (buckets={})", d.growth_left, sh.empty, buckets)));
    }
    out
}
