//! Structural invariants I1..I4 on the hook dump. All are independent of the hash function.

use hashbrown::verif::VerifDump;

pub const EMPTY: u8 = 0xFF;
pub const DELETED: u8 = 0x80;

#[derive(Clone, Debug, Default, PartialEq, Eq)]
pub struct Shape {
    pub buckets: usize,
    pub items: usize,
    pub growth_left: usize,
    pub empty: usize,
    pub deleted: usize,
    pub full: usize,
    pub width: usize,
    pub singleton: bool,
}

pub fn shape(d: &VerifDump) -> Shape {
    let buckets = d.bucket_mask + 1;
    let mut sh = Shape {
        buckets,
        items: d.items,
        growth_left: d.growth_left,
        width: d.group_width,
        singleton: d.is_empty_singleton,
        ..Default::default()
    };
    if d.is_empty_singleton {
        // the one pseudo-bucket is EMPTY
        sh.empty = 1;
        return sh;
    }
    for &c in &d.ctrl[..buckets] {
        if c == EMPTY {
            sh.empty += 1;
        } else if c == DELETED {
            sh.deleted += 1;
        } else if c & 0x80 == 0 {
            sh.full += 1;
        }
    }
    sh
}

/// Checks I1..I4; returns (class, detail) findings.
pub fn check(d: &VerifDump) -> Vec<(String, String)> {
    let mut out = Vec::new();
    let buckets = d.bucket_mask.wrapping_add(1);
    let w = d.group_width;
    if buckets == 0 || !buckets.is_power_of_two() {
        out.push(("inv/I1".into(), format!("bucket count {buckets} is not a power of two")));
        return out;
    }
    if d.is_empty_singleton {
        if d.items != 0 || d.growth_left != 0 {
            out.push(("inv/I1".into(), format!("unallocated table with items={} growth_left={}", d.items, d.growth_left)));
        }
        if d.ctrl.iter().any(|&c| c != EMPTY) {
            out.push(("inv/I3".into(), "static empty group contains a non-EMPTY byte".into()));
        }
        return out;
    }
    if d.ctrl.len() != buckets + w {
        out.push(("inv/I1".into(), format!("control byte count {} != buckets {} + width {}", d.ctrl.len(), buckets, w)));
        return out;
    }
    let sh = shape(d);
    // every control byte is EMPTY, DELETED or a 7-bit tag
    for (i, &c) in d.ctrl.iter().enumerate() {
        if c & 0x80 != 0 && c != EMPTY && c != DELETED {
            out.push(("inv/I3".into(), format!("control byte {i} has invalid value {c:#x}")));
            break;
        }
    }
    if sh.full != d.items {
        out.push(("inv/I2".into(), format!("items={} but {} full control bytes (buckets={})", d.items, sh.full, buckets)));
    }
    // mirror
    if buckets >= w {
        for i in 0..w {
            if d.ctrl[buckets + i] != d.ctrl[i] {
                out.push(("inv/I3".into(), format!("mirror byte {} = {:#x} differs from byte {} = {:#x}", buckets + i, d.ctrl[buckets + i], i, d.ctrl[i])));
                break;
            }
        }
    } else {
        for i in 0..buckets {
            if d.ctrl[w + i] != d.ctrl[i] {
                out.push(("inv/I3".into(), format!("small-table mirror byte {} = {:#x} differs from byte {} = {:#x}", w + i, d.ctrl[w + i], i, d.ctrl[i])));
                break;
            }
        }
        for i in buckets..w {
            if d.ctrl[i] != EMPTY {
                out.push(("inv/I3".into(), format!("gap byte {} of a table smaller than a group is {:#x}, not EMPTY", i, d.ctrl[i])));
                break;
            }
        }
    }
    if sh.empty == 0 {
        out.push(("inv/I4".into(), format!("no EMPTY bucket left (buckets={}, items={}, deleted={})", buckets, d.items, sh.deleted)));
    } else if d.growth_left >= sh.empty {
        out.push(("inv/I4".into(), format!("growth_left={} but only {} EMPTY buckets (buckets={})", d.growth_left, sh.empty, buckets)));
    }
    out
}

/// The number of elements a table with `buckets` buckets may hold, *measured* on the implementation
/// under test (largest n for which a fresh `with_capacity(n)` table has that many buckets), so that the
/// oracle does not encode the load factor. Cached per process.
pub fn capacity_of_buckets(buckets: usize) -> Option<usize> {
    use std::collections::BTreeMap;
    use std::sync::Mutex;
    static CACHE: Mutex<BTreeMap<usize, Option<usize>>> = Mutex::new(BTreeMap::new());
    if let Some(v) = CACHE.lock().unwrap_or_else(|e| e.into_inner()).get(&buckets) {
        return *v;
    }
    let buckets_for = |n: usize| -> (usize, usize) {
        let t: hashbrown::HashTable<[u64; 4]> = hashbrown::HashTable::with_capacity(n);
        let d = hashbrown::verif::dump_table(&t);
        (d.bucket_mask + 1, d.growth_left)
    };
    // with_capacity is monotone in n: binary search for the largest n that still gives `buckets`
    let (mut lo, mut hi) = (1usize, buckets);
    let mut best = None;
    while lo <= hi {
        let mid = lo + (hi - lo) / 2;
        let (b, gl) = buckets_for(mid);
        if b == buckets {
            best = Some(gl);
            lo = mid + 1;
        } else if b < buckets {
            lo = mid + 1;
        } else {
            if mid == 0 {
                break;
            }
            hi = mid - 1;
        }
    }
    CACHE.lock().unwrap_or_else(|e| e.into_inner()).insert(buckets, best);
    best
}

/// I6 (absolute form): growth_left + items + tombstones equals the capacity a fresh table of the same
/// bucket count has.
pub fn check_budget(d: &VerifDump) -> Option<(String, String)> {
    if d.is_empty_singleton {
        return None;
    }
    let sh = shape(d);
    let want = capacity_of_buckets(sh.buckets)?;
    let have = d.growth_left + d.items + sh.deleted;
    if have != want {
        return Some(("inv/I6".into(), format!("capacity budget of a {}-bucket table is {} (growth_left of a fresh table of that size), but growth_left+items+tombstones = {}+{}+{} = {}", sh.buckets, want, d.growth_left, d.items, sh.deleted, have)));
    }
    None
}
