//! Constructors that take the global allocator and accessors of the builder / allocator (`new`, `with_capacity`,
//! `with_hasher`, `with_capacity_and_hasher`, `hasher()`, `allocator()`, `HashSet::from(HashMap<T, ()>)`): the worlds
//! build every collection through the `_in` forms, so these forwarding functions run here, inside the uncounted
//! section of the `From<[T; N]>` operation. Capacity contract only (no allocator ledger behind `Global`):
//! `capacity() >= n`, nothing allocated for n = 0, and filling the promised room changes neither `capacity()`
//! nor `allocation_size()`.
use crate::alloc::SimAlloc;
use crate::elem::{KeyT, ValT};
use crate::plan::{Plan, SimBuildHasher};

fn distinct(ids: &[u32]) -> Vec<u32> {
    let mut d: Vec<u32> = Vec::new();
    for &i in ids {
        if !d.contains(&i) {
            d.push(i);
        }
    }
    d
}

pub fn set_ctors<K: KeyT>(ids: &[u32], extra: usize) -> Result<(), (&'static str, String)> {
    type GSet<K> = hashbrown::HashSet<K, SimBuildHasher>;
    type DSet<K> = hashbrown::HashSet<K>;
    let d = distinct(ids);
    let n = d.len() + extra;
    let a: GSet<K> = GSet::with_hasher(SimBuildHasher::new(Plan::Seq));
    if a.capacity() != 0 || a.allocation_size() != 0 || !a.is_empty() {
        return Err(("cap/alloc-on-new", format!("HashSet::with_hasher: capacity {} allocation_size {} len {}", a.capacity(), a.allocation_size(), a.len())));
    }
    if !matches!(*a.hasher().plan, Plan::Seq) {
        return Err(("ret/FromIter", "HashSet::hasher() is not the builder the set was made with".into()));
    }
    let e: DSet<K> = DSet::new();
    if e.capacity() != 0 || e.allocation_size() != 0 || !e.is_empty() {
        return Err(("cap/alloc-on-new", format!("HashSet::new: capacity {} allocation_size {}", e.capacity(), e.allocation_size())));
    }
    let mut b: GSet<K> = GSet::with_capacity_and_hasher(n, SimBuildHasher::new(Plan::Const0));
    let mut c: DSet<K> = DSet::with_capacity(n);
    if !matches!(*b.hasher().plan, Plan::Const0) {
        return Err(("ret/FromIter", "HashSet::hasher() is not the builder given to with_capacity_and_hasher".into()));
    }
    for (name, cap, asz) in [("with_capacity_and_hasher", b.capacity(), b.allocation_size()), ("with_capacity", c.capacity(), c.allocation_size())] {
        if cap < n {
            return Err(("cap/with-capacity", format!("HashSet::{name}({n}) has capacity {cap}")));
        }
        if n == 0 && (asz != 0 || cap != 0) {
            return Err(("cap/alloc-on-new", format!("HashSet::{name}(0) has capacity {cap}, allocation_size {asz}")));
        }
    }
    let (cb, ab, cc, ac) = (b.capacity(), b.allocation_size(), c.capacity(), c.allocation_size());
    for &i in &d {
        if !b.insert(K::make(i)) || !c.insert(K::make(i)) {
            return Err(("ret/FromIter", format!("insert({i}) into a fresh set returned false")));
        }
    }
    if (b.capacity(), b.allocation_size(), c.capacity(), c.allocation_size()) != (cb, ab, cc, ac) {
        return Err(("cap/grow-within-capacity", format!("filling {} of {n} promised places changed capacity/allocation_size: ({cb},{ab},{cc},{ac}) -> ({},{},{},{})", d.len(), b.capacity(), b.allocation_size(), c.capacity(), c.allocation_size())));
    }
    for &i in &d {
        let k = K::make(i);
        if !b.contains(&k) || !c.contains(&k) || b.get(&k).map(|x| x.id()) != Some(i) {
            return Err(("sweep/FromIter", format!("a set made by with_capacity does not contain {i} after insert")));
        }
    }
    if b.len() != d.len() || c.len() != d.len() || b.iter().count() != d.len() {
        return Err(("len/FromIter", format!("len {} / {} after {} distinct inserts", b.len(), c.len(), d.len())));
    }
    // HashSet::from(HashMap<T, (), S, A>)
    let mut m: hashbrown::HashMap<K, (), SimBuildHasher, SimAlloc> = hashbrown::HashMap::with_capacity_and_hasher_in(n, SimBuildHasher::new(Plan::Seq), SimAlloc);
    for &i in &d {
        m.insert(K::make(i), ());
    }
    let (mc, ma) = (m.capacity(), m.allocation_size());
    if m.allocator().pool != 0 {
        return Err(("ret/FromIter", "HashMap::allocator() is not the allocator given".into()));
    }
    let s: hashbrown::HashSet<K, SimBuildHasher, SimAlloc> = hashbrown::HashSet::from(m);
    let mut got: Vec<u32> = s.iter().map(|k| k.id()).collect();
    got.sort();
    let mut want = d.clone();
    want.sort();
    if got != want || s.len() != d.len() || s.capacity() != mc || s.allocation_size() != ma || s.allocator().pool != 0 || !matches!(*s.hasher().plan, Plan::Seq) {
        return Err(("ret/FromIter", format!("HashSet::from(map) holds {:?} (len {}, capacity {}, allocation_size {}), the map held {:?} (capacity {mc}, allocation_size {ma})", got, s.len(), s.capacity(), s.allocation_size(), want)));
    }
    Ok(())
}

pub fn map_ctors<K: KeyT, V: ValT>(pairs: &[(u32, u32)], extra: usize) -> Result<(), (&'static str, String)> {
    type GMap<K, V> = hashbrown::HashMap<K, V, SimBuildHasher>;
    type DMap<K, V> = hashbrown::HashMap<K, V>;
    let ids: Vec<u32> = pairs.iter().map(|p| p.0).collect();
    let d = distinct(&ids);
    let n = d.len() + extra;
    let a: GMap<K, V> = GMap::with_hasher(SimBuildHasher::new(Plan::Seq));
    if a.capacity() != 0 || a.allocation_size() != 0 || !a.is_empty() {
        return Err(("cap/alloc-on-new", format!("HashMap::with_hasher: capacity {} allocation_size {} len {}", a.capacity(), a.allocation_size(), a.len())));
    }
    if !matches!(*a.hasher().plan, Plan::Seq) {
        return Err(("ret/FromIter", "HashMap::hasher() is not the builder the map was made with".into()));
    }
    let e: DMap<K, V> = DMap::new();
    if e.capacity() != 0 || e.allocation_size() != 0 || !e.is_empty() {
        return Err(("cap/alloc-on-new", format!("HashMap::new: capacity {} allocation_size {}", e.capacity(), e.allocation_size())));
    }
    let mut b: GMap<K, V> = GMap::with_capacity_and_hasher(n, SimBuildHasher::new(Plan::Const0));
    let mut c: DMap<K, V> = DMap::with_capacity(n);
    if !matches!(*b.hasher().plan, Plan::Const0) {
        return Err(("ret/FromIter", "HashMap::hasher() is not the builder given to with_capacity_and_hasher".into()));
    }
    for (name, cap, asz) in [("with_capacity_and_hasher", b.capacity(), b.allocation_size()), ("with_capacity", c.capacity(), c.allocation_size())] {
        if cap < n {
            return Err(("cap/with-capacity", format!("HashMap::{name}({n}) has capacity {cap}")));
        }
        if n == 0 && (asz != 0 || cap != 0) {
            return Err(("cap/alloc-on-new", format!("HashMap::{name}(0) has capacity {cap}, allocation_size {asz}")));
        }
    }
    let (cb, ab, cc, ac) = (b.capacity(), b.allocation_size(), c.capacity(), c.allocation_size());
    for &i in &d {
        if b.insert(K::make(i), V::make(i)).is_some() || c.insert(K::make(i), V::make(i)).is_some() {
            return Err(("ret/FromIter", format!("insert({i}) into a fresh map returned Some")));
        }
    }
    if (b.capacity(), b.allocation_size(), c.capacity(), c.allocation_size()) != (cb, ab, cc, ac) {
        return Err(("cap/grow-within-capacity", format!("filling {} of {n} promised places changed capacity/allocation_size: ({cb},{ab},{cc},{ac}) -> ({},{},{},{})", d.len(), b.capacity(), b.allocation_size(), c.capacity(), c.allocation_size())));
    }
    for &i in &d {
        let k = K::make(i);
        if !b.contains_key(&k) || !c.contains_key(&k) || b.get_key_value(&k).map(|x| x.0.id()) != Some(i) {
            return Err(("sweep/FromIter", format!("a map made by with_capacity does not contain {i} after insert")));
        }
    }
    if b.len() != d.len() || c.len() != d.len() || b.iter().count() != d.len() {
        return Err(("len/FromIter", format!("len {} / {} after {} distinct inserts", b.len(), c.len(), d.len())));
    }
    Ok(())
}
