//! HashMap world, part 2: iterator plans (C09), owning iterators with cut points (C03), the entry
//! APIs (C14) and multi-key mutable borrows (C15).

use crate::ctx::{Out, VResult};
use crate::elem::{KeyT, ValT};
use crate::iterdrv::{drive, judge, Item, IterPlan};
use crate::mapw::{Ev, MapModel, MapWorld, SMap, ME, TOGGLE};
use crate::plan::SimBuildHasher;
use crate::scenario::{Op, Kd};
use crate::state::{sim, tick, Class, Probe};
use hashbrown::hash_map::{Entry, EntryRef, OccupiedEntry, VacantEntry};
use hashbrown::HashMap;

macro_rules! vio {
    ($self:ident, $class:expr, $($arg:tt)*) => {
        return Err($self.ctx.violation(&$class, format!($($arg)*)))
    };
}

fn kv_item<K: KeyT, V: ValT>(k: &K, v: &V) -> Item {
    (k.id(), k.serial(), v.val(), v.serial())
}
fn k_item<K: KeyT>(k: &K) -> Item {
    (k.id(), k.serial(), 0, 0)
}
fn v_item<V: ValT>(v: &V) -> Item {
    (0, 0, v.val(), v.serial())
}

impl<K: KeyT, V: ValT> MapWorld<K, V> {
    fn project(&self, si: usize, which: i64) -> Vec<Item> {
        self.slots[si]
            .model
            .e
            .iter()
            .map(|e| match which {
                2 => (e.kid, e.ks, 0, 0),
                3 | 4 => (0, 0, e.v, e.vs),
                _ => (e.kid, e.ks, e.v, e.vs),
            })
            .collect()
    }

    pub(crate) fn op_iter(&mut self, si: usize, op: &Op) -> VResult {
        // a: 0 iter, 1 iter_mut, 2 keys, 3 values, 4 values_mut, 5 (&map).into_iter(), 6 (&mut map).into_iter(),
        //    7.. default-constructed iterators
        let plan = IterPlan::from_v(&op.v);
        let which = op.a.rem_euclid(12);
        let total = self.slots[si].model.e.len();
        let mut fc = self.fctx(si, op);
        fc.toggles = true;
        let m = self.slots[si].map.as_mut().unwrap();
        // elements touched by a mutating iterator are recorded by the closure itself: adaptors such as
        // nth/count/last run it on elements they do not hand out
        let touched: std::cell::RefCell<Vec<Item>> = std::cell::RefCell::new(Vec::new());
        let tch = &touched;
        let out = self.ctx.call(op, || match which {
            0 => {
                let it = m.iter().map(|(k, v)| kv_item(k, v));
                drive(it, total, &plan, Some(&|i| i.clone()))
            }
            1 => drive(
                m.iter_mut().map(|(k, v)| {
                    let r = kv_item(k, v);
                    v.set(v.val() ^ Self::TG);
                    tch.borrow_mut().push(r);
                    r
                }),
                total,
                &plan,
                None,
            ),
            2 => drive(m.keys().map(|k| k_item(k)), total, &plan, Some(&|i| i.clone())),
            3 => drive(m.values().map(|v| v_item(v)), total, &plan, Some(&|i| i.clone())),
            4 => drive(
                m.values_mut().map(|v| {
                    let r = v_item(v);
                    v.set(v.val() ^ Self::TG);
                    tch.borrow_mut().push(r);
                    r
                }),
                total,
                &plan,
                None,
            ),
            5 => drive((&*m).into_iter().map(|(k, v)| kv_item(k, v)), total, &plan, Some(&|i| i.clone())),
            6 => drive(
                (&mut *m).into_iter().map(|(k, v)| {
                    let r = kv_item(k, v);
                    v.set(v.val() ^ Self::TG);
                    tch.borrow_mut().push(r);
                    r
                }),
                total,
                &plan,
                None,
            ),
            7 => drive(hashbrown::hash_map::Iter::<K, V>::default().map(|(k, v)| kv_item(k, v)), 0, &plan, Some(&|i| i.clone())),
            8 => drive(hashbrown::hash_map::Keys::<K, V>::default().map(|k| k_item(k)), 0, &plan, Some(&|i| i.clone())),
            9 => drive(hashbrown::hash_map::Values::<K, V>::default().map(|v| v_item(v)), 0, &plan, Some(&|i| i.clone())),
            10 => drive(hashbrown::hash_map::IterMut::<K, V>::default().map(|(k, v)| kv_item(k, v)), 0, &plan, None),
            _ => drive(hashbrown::hash_map::ValuesMut::<K, V>::default().map(|v| v_item(v)), 0, &plan, None),
        });
        let touched = touched.into_inner();
        if which >= 7 {
            sim().probe(Probe::IterDefault);
        }
        if plan.finish == 4 {
            sim().probe(Probe::LeakIter);
        }
        let Some(log) = self.settle(out, si, fc)? else { return Ok(()) };
        let mutating = matches!(which, 1 | 4 | 6);
        if !self.ctx.functional() {
            if mutating {
                let act = self.actual(si);
                self.slots[si].model.e = act.into_iter().map(|x| x.0).collect();
            }
            if let Some(e) = log.errs.first() {
                vio!(self, "iterlen/Iter", "iterator kind {which}: {e}");
            }
            return Ok(());
        }
        let model: Vec<Item> = if which >= 7 { Vec::new() } else { self.project(si, which) };
        if let Some(e) = judge(&log, &model, &plan) {
            vio!(self, "iter/Iter", "iterator kind {which}, plan {:?}: {e}", plan);
        }
        if mutating && which == 4 && !V::HAS_SERIAL {
            // values_mut over values without identity: which entries a partial traversal touched cannot be told
            // from the items, only how many of which value. Check the multiset, then adopt the actual values.
            let mut want: Vec<u32> = self.slots[si].model.e.iter().map(|e| e.v).collect();
            for it in &touched {
                if let Some(p) = want.iter().position(|&x| x == it.2) {
                    want[p] ^= Self::TG;
                } else {
                    vio!(self, "iter/Iter", "values_mut handed out value {} which the model does not hold", it.2);
                }
            }
            let act = self.actual(si);
            let mut have: Vec<u32> = act.iter().map(|x| x.0.v).collect();
            want.sort();
            have.sort();
            if want != have {
                vio!(self, "iter/Iter", "after values_mut toggled {} values the stored values are {:?}, expected the multiset {:?}", touched.len(), have, want);
            }
            for e in self.slots[si].model.e.iter_mut() {
                if let Some((a, _)) = act.iter().find(|(a, _)| a.kid == e.kid) {
                    e.v = a.v;
                }
            }
        } else if mutating {
            // every visited entry was toggled once
            let visited: Vec<Item> = touched.clone();
            let model = &mut self.slots[si].model;
            let mut done = vec![false; model.e.len()];
            for it in visited {
                let pos = model.e.iter().enumerate().position(|(i, e)| {
                    !done[i]
                        && if which == 4 {
                            e.v == it.2 && e.vs == it.3
                        } else {
                            e.kid == it.0
                        }
                });
                if let Some(p) = pos {
                    done[p] = true;
                    model.e[p].v ^= Self::TG;
                }
            }
        }
        Ok(())
    }

    pub(crate) fn op_into_iter(&mut self, si: usize, op: &Op) -> VResult {
        // a: 0 into_iter, 1 into_keys, 2 into_values, 3.. default-constructed owning iterators; v = plan
        let plan = IterPlan::from_v(&op.v);
        let which = op.a.rem_euclid(6);
        let total = self.slots[si].model.e.len();
        let fc = self.fctx(si, op);
        let model = std::mem::take(&mut self.slots[si].model);
        let size0 = self.map(si).allocation_size() as u64;
        let plan_of_slot = self.slots[si].plan.clone();
        let fresh: SMap<K, V> = HashMap::with_hasher_in(SimBuildHasher::new(plan_of_slot), crate::alloc::SimAlloc);
        let m = if which < 3 { self.slots[si].map.replace(fresh).unwrap() } else { fresh };
        // owned items are collected so that the harness (not hashbrown) drops them afterwards
        let mut owned_k: Vec<K> = Vec::new();
        let mut owned_v: Vec<V> = Vec::new();
        let (ok, ov) = (&mut owned_k, &mut owned_v);
        let out = self.ctx.call(op, move || match which {
            0 => drive(
                m.into_iter().map(|(k, v)| {
                    let r = kv_item(&k, &v);
                    ok.push(k);
                    ov.push(v);
                    r
                }),
                total,
                &plan,
                None,
            ),
            1 => drive(
                m.into_keys().map(|k| {
                    let r = k_item(&k);
                    ok.push(k);
                    r
                }),
                total,
                &plan,
                None,
            ),
            2 => drive(
                m.into_values().map(|v| {
                    let r = v_item(&v);
                    ov.push(v);
                    r
                }),
                total,
                &plan,
                None,
            ),
            3 => drive(hashbrown::hash_map::IntoIter::<K, V, crate::alloc::SimAlloc>::default().map(|(k, v)| kv_item(&k, &v)), 0, &plan, None),
            4 => drive(hashbrown::hash_map::IntoKeys::<K, V, crate::alloc::SimAlloc>::default().map(|k| k_item(&k)), 0, &plan, None),
            _ => drive(hashbrown::hash_map::IntoValues::<K, V, crate::alloc::SimAlloc>::default().map(|v| v_item(&v)), 0, &plan, None),
        });
        let intact = owned_k.iter().all(|k| k.intact()) && owned_v.iter().all(|v| v.intact());
        drop(owned_k);
        drop(owned_v);
        if which >= 3 {
            sim().probe(Probe::IterDefault);
            self.slots[si].model = model;
            let Some(log) = self.settle(out, si, fc)? else { return Ok(()) };
            if let Some(e) = judge(&log, &[], &plan) {
                vio!(self, "iter/IntoIter", "default-constructed owning iterator {which}: {e}");
            }
            return Ok(());
        }
        {
            let mut s = sim();
            match plan.finish {
                4 => s.probe(Probe::LeakIntoIter),
                3 => s.probe(Probe::EarlyDropIntoIter),
                _ => {}
            }
        }
        let log = match out {
            Out::Ok(l) => l,
            Out::Fault(_) => {
                // a destructor panicked while an owning iterator was being consumed or dropped: leaks allowed
                self.ctx.drain_callback_violations()?;
                return Ok(());
            }
            other => {
                self.settle(other, si, fc)?;
                return Ok(());
            }
        };
        if !intact {
            vio!(self, "ledger/invalid-ref", "an owning iterator yielded an element that is not live");
        }
        let proj: Vec<Item> = model
            .e
            .iter()
            .map(|e| match which {
                1 => (e.kid, e.ks, 0, 0),
                2 => (0, 0, e.v, e.vs),
                _ => (e.kid, e.ks, e.v, e.vs),
            })
            .collect();
        if self.ctx.functional() {
            if let Some(e) = judge(&log, &proj, &plan) {
                vio!(self, "iter/IntoIter", "owning iterator {which}, plan {:?}: {e}", plan);
            }
        }
        let yielded = log.head.len() + log.tail.len() + if plan.finish == 5 { log.counted.unwrap_or(0) } else { 0 };
        if plan.finish == 4 {
            // forgotten: the unyielded remainder and the block are leaked, exactly. Which entries were yielded is
            // not always identifiable from the items (values without a serial), so the leaked entries are those
            // still live afterwards; their number must be total - yielded and each must be live as a whole.
            let n_yielded = log.head.len() + log.tail.len();
            let expect_leaked = model.e.len().saturating_sub(n_yielded);
            let mut leaked = 0usize;
            {
                let s = sim();
                for e in &model.e {
                    let kl = K::HAS_SERIAL && s.serial_state[e.ks as usize] == 1;
                    let vl = V::HAS_SERIAL && s.serial_state[e.vs as usize] == 1;
                    if kl || vl {
                        leaked += 1;
                        if (K::HAS_SERIAL && !kl) || (V::HAS_SERIAL && !vl) {
                            drop(s);
                            vio!(self, "ledger/leak", "a forgotten owning iterator {which} dropped only half of entry ({}, {})", e.kid, e.v);
                        }
                    }
                }
            }
            if (K::HAS_SERIAL || V::HAS_SERIAL) && leaked != expect_leaked {
                vio!(self, if leaked > expect_leaked { "ledger/leak" } else { "ledger/double-drop" }, "after forgetting owning iterator {which} that had yielded {n_yielded} of {} entries, {leaked} entries are still live (expected {expect_leaked})", model.e.len());
            }
            {
                let s = sim();
                for e in &model.e {
                    if K::HAS_SERIAL && s.serial_state[e.ks as usize] == 1 {
                        self.ctx.leaked_serials.insert(e.ks);
                    }
                    if V::HAS_SERIAL && s.serial_state[e.vs as usize] == 1 {
                        self.ctx.leaked_serials.insert(e.vs);
                    }
                }
            }
            if !K::HAS_SERIAL && K::HAS_DROP {
                self.ctx.leaked_ms += expect_leaked as i64;
            }
            if size0 > 0 {
                self.ctx.leaked_bytes += size0;
                self.ctx.leaked_blocks += 1;
            }
        } else {
            let _ = yielded;
            // everything is gone: yielded items were dropped by the harness, the rest by the iterator
            let s = sim();
            for e in &model.e {
                if (K::HAS_SERIAL && s.serial_state[e.ks as usize] == 1) || (V::HAS_SERIAL && s.serial_state[e.vs as usize] == 1) {
                    drop(s);
                    vio!(self, "ledger/leak", "consuming/dropping the owning iterator {which} did not drop entry ({}, {})", e.kid, e.v);
                }
            }
        }
        Ok(())
    }

    // ------------------------------------------------------------------ entry API chains
    /// Expected observation log of an entry chain on the model. Returns (log, whether a vacant entry was dropped unused).
    fn model_entry_chain(model: &mut MapModel, kid: u32, ks: u32, methods: &[i64], vals: &[(u32, u32)]) -> Vec<Ev> {
        #[derive(PartialEq)]
        enum St {
            E,
            O,
            V,
            Done,
        }
        let mut log = Vec::new();
        let mut st = St::E;
        // serial of the key the entry object currently carries (changes when a removal hands the stored key to a Vacant entry)
        let mut eks = ks;
        let mut vi = 0;
        let mut next_val = || {
            let v = vals[vi.min(vals.len() - 1)];
            vi += 1;
            v
        };
        for &mth in methods {
            let occ = model.pos(kid);
            match (&st, mth) {
                (St::Done, _) => break,
                (St::E, 1) => {
                    let v = next_val();
                    match occ {
                        Some(i) => {
                            model.e[i].v = v.0;
                            model.e[i].vs = v.1;
                        }
                        None => model.e.push(ME { kid, ks: eks, v: v.0, vs: v.1 }),
                    }
                    st = St::O;
                }
                (St::E, 2) | (St::E, 3) | (St::E, 4) => {
                    let v = next_val();
                    match occ {
                        Some(i) => log.push(Ev::Val(model.e[i].v, model.e[i].vs)),
                        None => {
                            model.e.push(ME { kid, ks: eks, v: v.0, vs: v.1 });
                            log.push(Ev::Val(v.0, v.1));
                        }
                    }
                    st = St::Done;
                }
                (St::E, 26) => {
                    // or_default: the value is created inside hashbrown (payload 0, serial unknown to the model)
                    let vfresh = if V::HAS_SERIAL { crate::mapw_entry::FRESH } else { 0 };
                    match occ {
                        Some(i) => log.push(Ev::Val(model.e[i].v, model.e[i].vs)),
                        None => {
                            model.e.push(ME { kid, ks: eks, v: 0, vs: vfresh });
                            log.push(Ev::Val(0, vfresh));
                        }
                    }
                    st = St::Done;
                }
                (St::E, 5) => {
                    let e = occ.map(|i| model.e[i]);
                    // Entry::key() returns the entry's own key for Vacant, the stored key for Occupied
                    log.push(Ev::Key(kid, e.map_or(eks, |e| e.ks)));
                }
                (St::E, 6) => {
                    if let Some(i) = occ {
                        model.e[i].v ^= Self::TG;
                    }
                }
                (St::E, 7) => {
                    if let Some(i) = occ {
                        let v = next_val();
                        log.push(Ev::Old(model.e[i].v, model.e[i].vs));
                        model.e[i].v = v.0;
                        model.e[i].vs = v.1;
                    }
                }
                (St::E, 8) => {
                    if let Some(i) = occ {
                        log.push(Ev::Old(model.e[i].v, model.e[i].vs));
                        eks = model.e[i].ks;
                        model.e.swap_remove(i);
                    }
                }
                (St::E, 9) => {
                    log.push(Ev::Occ(occ.is_some()));
                    st = if occ.is_some() { St::O } else { St::V };
                }
                (St::O, 10) => {
                    let e = model.e[occ.unwrap()];
                    log.push(Ev::Key(e.kid, e.ks));
                }
                (St::O, 11) => {
                    let e = model.e[occ.unwrap()];
                    log.push(Ev::Val(e.v, e.vs));
                }
                (St::O, 12) => {
                    let i = occ.unwrap();
                    log.push(Ev::Val(model.e[i].v, model.e[i].vs));
                    model.e[i].v ^= Self::TG;
                }
                (St::O, 13) => {
                    let i = occ.unwrap();
                    log.push(Ev::Val(model.e[i].v, model.e[i].vs));
                    model.e[i].v ^= Self::TG;
                    st = St::Done;
                }
                (St::O, 14) => {
                    let i = occ.unwrap();
                    let v = next_val();
                    log.push(Ev::Old(model.e[i].v, model.e[i].vs));
                    model.e[i].v = v.0;
                    model.e[i].vs = v.1;
                }
                (St::O, 15) => {
                    let e = model.e.swap_remove(occ.unwrap());
                    log.push(Ev::Old(e.v, e.vs));
                    st = St::Done;
                }
                (St::O, 16) => {
                    let e = model.e.swap_remove(occ.unwrap());
                    log.push(Ev::Removed(e.kid, e.ks, e.v, e.vs));
                    st = St::Done;
                }
                (St::O, 17) => {
                    let i = occ.unwrap();
                    let v = next_val();
                    log.push(Ev::Old(model.e[i].v, model.e[i].vs));
                    model.e[i].v = v.0;
                    model.e[i].vs = v.1;
                    st = St::E;
                }
                (St::O, 18) => {
                    let e = model.e.swap_remove(occ.unwrap());
                    log.push(Ev::Old(e.v, e.vs));
                    eks = e.ks;
                    st = St::E;
                }
                (St::V, 20) => log.push(Ev::Key(kid, eks)),
                (St::V, 21) => {
                    log.push(Ev::RetKey(kid, eks));
                    st = St::Done;
                }
                (St::V, 22) => {
                    let v = next_val();
                    model.e.push(ME { kid, ks: eks, v: v.0, vs: v.1 });
                    log.push(Ev::Val(v.0, v.1));
                    st = St::Done;
                }
                (St::V, 23) => {
                    let v = next_val();
                    model.e.push(ME { kid, ks: eks, v: v.0, vs: v.1 });
                    st = St::O;
                }
                _ => {
                    // method not applicable in this state: the entry is dropped
                    break;
                }
            }
        }
        log
    }

    pub(crate) fn op_entry(&mut self, si: usize, op: &Op) -> VResult {
        // a = key id, b = base value, v = [api, m1, m2, m3]
        let api = op.v.first().copied().unwrap_or(0).rem_euclid(crate::mapw_entry::N_API);
        if api != 0 {
            return self.op_entry_other(si, op, api);
        }
        let kid = op.a as u32 % K::UNIVERSE;
        let methods: Vec<i64> = op.v.iter().skip(1).copied().collect();
        let key = K::make(kid);
        let ks = key.serial();
        let vals: Vec<V> = (0..4).map(|i| V::make((op.b as u32).wrapping_add(i) & !TOGGLE)).collect();
        let vtoks: Vec<(u32, u32)> = vals.iter().map(|v| (v.val(), v.serial())).collect();
        let mut fc = self.fctx(si, op);
        fc.toggles = true;
        // a chain is several calls: an earlier step may legitimately have grown the table before a later step panics
        fc.multi = methods.len() > 1;
        fc.allowed = vtoks.iter().map(|v| (kid, v.0)).collect();
        fc.arg_serials = std::iter::once(ks).chain(vtoks.iter().map(|v| v.1)).collect();
        self.note_entry_state(si);
        let mut expect_model = self.slots[si].model.clone();
        let expect = Self::model_entry_chain(&mut expect_model, kid, ks, &methods, &vtoks);
        // leaking a Vacant entry leaks its key; that is only accounted for keys with a serial (or no destructor)
        let forget_entry = op.c == 1 && (K::HAS_SERIAL || !K::HAS_DROP);
        if forget_entry {
            sim().probe(Probe::LeakEntry);
        }
        let m = self.slots[si].map.as_mut().unwrap();
        let mut spare: Vec<V> = Vec::new();
        let mut ret_k: Vec<K> = Vec::new();
        let mut ret_v: Vec<V> = Vec::new();
        let (sp, rk, rv) = (&mut spare, &mut ret_k, &mut ret_v);
        let out = self.ctx.call(op, move || {
            enum St<'a, K, V> {
                E(Entry<'a, K, V, SimBuildHasher, crate::alloc::SimAlloc>),
                O(OccupiedEntry<'a, K, V, SimBuildHasher, crate::alloc::SimAlloc>),
                V(VacantEntry<'a, K, V, SimBuildHasher, crate::alloc::SimAlloc>),
                Done,
            }
            let mut vals = vals.into_iter();
            let mut log: Vec<Ev> = Vec::new();
            let mut run = || -> Option<St<'_, K, V>> {
            let mut st = St::E(m.entry(key));
            for &mth in &methods {
                st = match (st, mth) {
                    (St::Done, _) => return None,
                    (St::E(e), 1) => St::O(e.insert(vals.next().unwrap())),
                    (St::E(e), 2) => {
                        let r = e.or_insert(vals.next().unwrap());
                        log.push(Ev::Val(r.val(), r.serial()));
                        St::Done
                    }
                    (St::E(e), 3) => {
                        let v = vals.next().unwrap();
                        let mut slot = Some(v);
                        let r = e.or_insert_with(|| {
                            tick(Class::Pred);
                            slot.take().unwrap()
                        });
                        log.push(Ev::Val(r.val(), r.serial()));
                        if let Some(v) = slot {
                            sp.push(v);
                        }
                        St::Done
                    }
                    (St::E(e), 4) => {
                        let v = vals.next().unwrap();
                        let mut slot = Some(v);
                        let r = e.or_insert_with_key(|_k| {
                            tick(Class::Pred);
                            slot.take().unwrap()
                        });
                        log.push(Ev::Val(r.val(), r.serial()));
                        if let Some(v) = slot {
                            sp.push(v);
                        }
                        St::Done
                    }
                    (St::E(e), 5) => {
                        log.push(Ev::Key(e.key().id(), e.key().serial()));
                        St::E(e)
                    }
                    (St::E(e), 26) => {
                        sim().probe(Probe::EntryOrDefault);
                        let r = e.or_default();
                        log.push(Ev::Val(r.val(), r.serial()));
                        St::Done
                    }
                    (St::E(e), 6) => St::E(e.and_modify(|v| {
                        tick(Class::Pred);
                        v.set(v.val() ^ Self::TG)
                    })),
                    (St::E(e), 7) => {
                        let occupied = matches!(e, Entry::Occupied(_));
                        let nv = if occupied { vals.next() } else { None };
                        let mut nv = nv;
                        let lg = &mut log;
                        let rvv = &mut *rv;
                        St::E(e.and_replace_entry_with(|_k, old| {
                            tick(Class::Pred);
                            lg.push(Ev::Old(old.val(), old.serial()));
                            rvv.push(old);
                            nv.take()
                        }))
                    }
                    (St::E(e), 8) => {
                        let lg = &mut log;
                        let rvv = &mut *rv;
                        St::E(e.and_replace_entry_with(|_k, old| {
                            tick(Class::Pred);
                            lg.push(Ev::Old(old.val(), old.serial()));
                            rvv.push(old);
                            None
                        }))
                    }
                    (St::E(e), 9) => match e {
                        Entry::Occupied(o) => {
                            log.push(Ev::Occ(true));
                            St::O(o)
                        }
                        Entry::Vacant(v) => {
                            log.push(Ev::Occ(false));
                            St::V(v)
                        }
                    },
                    (St::O(o), 10) => {
                        log.push(Ev::Key(o.key().id(), o.key().serial()));
                        St::O(o)
                    }
                    (St::O(o), 11) => {
                        log.push(Ev::Val(o.get().val(), o.get().serial()));
                        St::O(o)
                    }
                    (St::O(mut o), 12) => {
                        let r = o.get_mut();
                        log.push(Ev::Val(r.val(), r.serial()));
                        r.set(r.val() ^ Self::TG);
                        St::O(o)
                    }
                    (St::O(o), 13) => {
                        let r = o.into_mut();
                        log.push(Ev::Val(r.val(), r.serial()));
                        r.set(r.val() ^ Self::TG);
                        St::Done
                    }
                    (St::O(mut o), 14) => {
                        let old = o.insert(vals.next().unwrap());
                        log.push(Ev::Old(old.val(), old.serial()));
                        rv.push(old);
                        St::O(o)
                    }
                    (St::O(o), 15) => {
                        let old = o.remove();
                        log.push(Ev::Old(old.val(), old.serial()));
                        rv.push(old);
                        St::Done
                    }
                    (St::O(o), 16) => {
                        let (k, v) = o.remove_entry();
                        log.push(Ev::Removed(k.id(), k.serial(), v.val(), v.serial()));
                        rk.push(k);
                        rv.push(v);
                        St::Done
                    }
                    (St::O(o), 17) => {
                        let mut nv = vals.next();
                        let lg = &mut log;
                        let rvv = &mut *rv;
                        St::E(o.replace_entry_with(|_k, old| {
                            tick(Class::Pred);
                            lg.push(Ev::Old(old.val(), old.serial()));
                            rvv.push(old);
                            nv.take()
                        }))
                    }
                    (St::O(o), 18) => {
                        let lg = &mut log;
                        let rvv = &mut *rv;
                        St::E(o.replace_entry_with(|_k, old| {
                            tick(Class::Pred);
                            lg.push(Ev::Old(old.val(), old.serial()));
                            rvv.push(old);
                            None
                        }))
                    }
                    (St::V(v), 20) => {
                        log.push(Ev::Key(v.key().id(), v.key().serial()));
                        St::V(v)
                    }
                    (St::V(v), 21) => {
                        let k = v.into_key();
                        log.push(Ev::RetKey(k.id(), k.serial()));
                        rk.push(k);
                        St::Done
                    }
                    (St::V(v), 22) => {
                        let r = v.insert(vals.next().unwrap());
                        log.push(Ev::Val(r.val(), r.serial()));
                        St::Done
                    }
                    (St::V(v), 23) => St::O(v.insert_entry(vals.next().unwrap())),
                    (s, _) => return Some(s),
                };
            }
            Some(st)
            };
            // the entry (if any) is dropped or leaked here; unused values go back to the harness
            let fin = run();
            if forget_entry {
                std::mem::forget(fin);
            } else {
                drop(fin);
            }
            sp.extend(vals);
            log
        });
        drop(spare);
        drop(ret_k);
        drop(ret_v);
        if forget_entry && K::HAS_SERIAL {
            // a leaked Vacant entry leaks the key it owns (the one passed in, or the stored key that a
            // replace_entry_with -> None handed to it): exactly that key, deliberately
            let act = self.actual(si);
            let old_ks = self.slots[si].model.get(kid).map(|e| e.ks);
            for cand in std::iter::once(ks).chain(old_ks) {
                if sim().serial_state[cand as usize] == 1 && !act.iter().any(|(e, _)| e.ks == cand) {
                    self.ctx.leaked_serials.insert(cand);
                }
            }
        }
        let Some(log) = self.settle(out, si, fc)? else { return Ok(()) };
        if !self.ctx.functional() {
            let act = self.actual(si);
            self.slots[si].model.e = act.into_iter().map(|x| x.0).collect();
            return Ok(());
        }
        if !crate::mapw_entry::logs_match(&expect, &log) {
            vio!(self, "entry/Entry", "entry({kid}) chain {:?} observed {:?}, the model expects {:?}", &op.v[1..], log, expect);
        }
        if expect_model.e.iter().any(|e| e.vs == crate::mapw_entry::FRESH) {
            let act = self.actual(si);
            for e in expect_model.e.iter_mut().filter(|e| e.vs == crate::mapw_entry::FRESH) {
                if let Some((a, _)) = act.iter().find(|(a, _)| a.kid == e.kid) {
                    e.vs = a.vs;
                }
            }
        }
        self.slots[si].model = expect_model;
        Ok(())
    }

    /// Probes describing the state in which an entry is created.
    pub(crate) fn note_entry_state(&mut self, si: usize) {
        let sh = self.shape(si);
        let m = self.map(si);
        let mut s = sim();
        if sh.singleton {
            s.probe(Probe::EntryOnSingleton);
        } else if m.capacity() == m.len() {
            s.probe(Probe::EntryAtFullLoad);
            if sh.deleted > 0 {
                s.probe(Probe::EntryTombstoneSaturated);
            }
        }
    }

    // ------------------------------------------------------------------ get_many_mut (C15)
    pub(crate) fn op_get_many(&mut self, si: usize, op: &Op) -> VResult {
        let ids: Vec<u32> = op.v.iter().take(6).map(|&x| x as u32 % K::UNIVERSE).collect();
        let n = ids.len();
        let kv = op.k == Kd::GetManyKv;
        let base = Self::nv((op.b as u32) & !TOGGLE);
        let fc = self.fctx(si, op);
        let views: Vec<K::Holder> = ids.iter().map(|&i| K::view(i)).collect();
        // the unchecked flavours have "no overlapping keys" as their safety precondition: only with pairwise
        // different keys and lawful Hash/Eq
        let distinct = (0..n).all(|i| (0..i).all(|j| ids[i] != ids[j]));
        let unchecked = op.c == 3 && distinct && self.ctx.functional() && self.ctx.cfg.eq_mode == crate::state::EqMode::Lawful;
        if unchecked {
            sim().probe(Probe::GetManyUnchecked);
        }
        let m = self.slots[si].map.as_mut().unwrap();
        // result per request: Some((key serial or 0, val serial, old val, address)) or None
        type R = Vec<Option<(u32, u32, u32, usize)>>;
        macro_rules! many {
            ($n:expr) => {{
                let ks: [&K::View; $n] = std::array::from_fn(|i| &*views[i]);
                if unchecked && kv {
                    let r = unsafe { m.get_many_key_value_unchecked_mut(ks) };
                    r.into_iter()
                        .enumerate()
                        .map(|(i, o)| {
                            o.map(|(k, v)| {
                                let x = (k.serial(), v.serial(), v.val(), v as *mut V as usize);
                                v.set(Self::nv(base + i as u32));
                                x
                            })
                        })
                        .collect::<R>()
                } else if unchecked {
                    let r = unsafe { m.get_many_unchecked_mut(ks) };
                    r.into_iter()
                        .enumerate()
                        .map(|(i, o)| {
                            o.map(|v| {
                                let x = (0, v.serial(), v.val(), v as *mut V as usize);
                                v.set(Self::nv(base + i as u32));
                                x
                            })
                        })
                        .collect::<R>()
                } else if kv {
                    let r = m.get_many_key_value_mut(ks);
                    r.into_iter()
                        .enumerate()
                        .map(|(i, o)| {
                            o.map(|(k, v)| {
                                let x = (k.serial(), v.serial(), v.val(), v as *mut V as usize);
                                v.set(Self::nv(base + i as u32));
                                x
                            })
                        })
                        .collect::<R>()
                } else {
                    let r = m.get_many_mut(ks);
                    r.into_iter()
                        .enumerate()
                        .map(|(i, o)| {
                            o.map(|v| {
                                let x = (0, v.serial(), v.val(), v as *mut V as usize);
                                v.set(Self::nv(base + i as u32));
                                x
                            })
                        })
                        .collect::<R>()
                }
            }};
        }
        let out = self.ctx.call(op, || match n {
            0 => many!(0),
            1 => many!(1),
            2 => many!(2),
            3 => many!(3),
            4 => many!(4),
            5 => many!(5),
            _ => many!(6),
        });
        // do two requests resolve to the same present entry?
        let model = &self.slots[si].model;
        let dup_present = (0..n).any(|i| (0..i).any(|j| ids[i] == ids[j] && model.pos(ids[i]).is_some()));
        {
            let mut s = sim();
            if dup_present {
                s.probe(Probe::GetManyDup);
            } else if ids.iter().all(|&i| model.pos(i).is_some()) && n > 0 {
                s.probe(Probe::GetManyAllPresent);
            } else {
                s.probe(Probe::GetManyAbsent);
            }
        }
        let res = match out {
            Out::Panic(msg) => {
                if dup_present || !self.ctx.functional() {
                    // required: the call must panic rather than hand out aliasing references
                    return Ok(());
                }
                vio!(self, "getmany/spurious-panic", "get_many_mut({:?}) panicked although no two requests resolve to one entry: {msg}", ids);
            }
            o => {
                let Some(r) = self.settle(o, si, fc)? else { return Ok(()) };
                r
            }
        };
        // returned references must be pairwise distinct whatever Hash/Eq do
        if std::mem::size_of::<V>() > 0 {
            for i in 0..res.len() {
                for j in 0..i {
                    if let (Some(a), Some(b)) = (res[i], res[j]) {
                        if a.3 == b.3 {
                            vio!(self, "getmany/alias", "get_many_mut({:?}) returned the same entry for requests {j} and {i}", ids);
                        }
                    }
                }
            }
        }
        if !self.ctx.functional() {
            let act = self.actual(si);
            self.slots[si].model.e = act.into_iter().map(|x| x.0).collect();
            return Ok(());
        }
        if dup_present {
            vio!(self, "getmany/no-panic", "get_many_mut({:?}) returned although two requests resolve to the same entry", ids);
        }
        if res.len() != n {
            vio!(self, "getmany/arity", "get_many_mut returned {} results for {n} requests", res.len());
        }
        for (i, r) in res.iter().enumerate() {
            let want = self.slots[si].model.get(ids[i]);
            match (want, r) {
                (None, None) => {}
                (Some(w), Some((ks, vs, oldv, _))) => {
                    if *vs != w.vs || *oldv != w.v || (kv && *ks != w.ks) {
                        vio!(self, "getmany/wrong-entry", "request {i} (key {}) returned value serial {vs} (value {oldv}), model has {:?}", ids[i], w);
                    }
                    let p = self.slots[si].model.pos(ids[i]).unwrap();
                    self.slots[si].model.e[p].v = Self::nv(base + i as u32);
                }
                (w, r) => vio!(self, "getmany/presence", "request {i} (key {}) returned {:?}, model has {:?}", ids[i], r.map(|x| x.1), w),
            }
        }
        Ok(())
    }
}

#[allow(dead_code)]
fn _unused<K: KeyT, V: ValT>(_: EntryRef<'_, '_, K, K::View, V, SimBuildHasher, crate::alloc::SimAlloc>) {}
