//! Drives any exact-size iterator through a consumption plan (C09): a x next(), optional clone,
//! then next-until-None / fold / for_each / drop / forget, then extra next() calls after exhaustion.

use crate::state::{sim, Probe};

#[derive(Clone, Copy, Debug)]
pub struct IterPlan {
    pub n_next: usize,
    pub clone_mid: bool,
    /// 0 next until None (+extra), 1 fold, 2 for_each, 3 drop, 4 forget, 5 count, 6 last, 7 nth(1) repeatedly
    pub finish: u8,
    pub extra: usize,
}

impl IterPlan {
    pub fn from_v(v: &[i64]) -> IterPlan {
        IterPlan {
            n_next: v.first().copied().unwrap_or(0).max(0) as usize,
            clone_mid: v.get(1).copied().unwrap_or(0) != 0,
            finish: v.get(2).copied().unwrap_or(0).rem_euclid(8) as u8,
            extra: v.get(3).copied().unwrap_or(0).clamp(0, 4) as usize,
        }
    }
    pub fn exhausts(&self) -> bool {
        matches!(self.finish, 0 | 1 | 2)
    }
}

pub type Item = (u32, u32, u32, u32);

#[derive(Debug, Default)]
pub struct IterLog {
    /// items from next() before the switch point
    pub head: Vec<Item>,
    /// items after the switch point (next / fold / for_each)
    pub tail: Vec<Item>,
    /// items from the clone taken at the switch point
    pub cloned: Option<Vec<Item>>,
    pub errs: Vec<String>,
    /// count()/last() style results
    pub counted: Option<usize>,
}

fn check_len<I: ExactSizeIterator>(it: &I, rem: usize, what: &str, errs: &mut Vec<String>) {
    let sh = it.size_hint();
    let l = it.len();
    if l != rem || sh != (rem, Some(rem)) {
        errs.push(format!("{what}: len()={l} size_hint()={sh:?} but {rem} elements remain"));
    }
}

/// `total` is the number of elements the collection holds according to the model.
pub fn drive<I>(mut it: I, total: usize, plan: &IterPlan, cl: Option<&dyn Fn(&I) -> I>) -> IterLog
where
    I: Iterator<Item = Item> + ExactSizeIterator,
{
    let mut log = IterLog::default();
    let mut n = 0usize;
    while n < plan.n_next {
        check_len(&it, total.saturating_sub(n), "before next", &mut log.errs);
        match it.next() {
            Some(x) => log.head.push(x),
            None => break,
        }
        n += 1;
    }
    let rem = total.saturating_sub(log.head.len());
    check_len(&it, rem, "at the switch point", &mut log.errs);
    if plan.clone_mid {
        if let Some(cl) = cl {
            sim().probe(Probe::IterCloneMid);
            let mut c = cl(&it);
            let mut v = Vec::new();
            // the clone is consumed through next(), fold() or for_each() in turn
            match (plan.n_next + plan.extra) % 3 {
                1 => {
                    v = c.fold(v, |mut acc, x| {
                        acc.push(x);
                        acc
                    });
                }
                2 => c.for_each(|x| v.push(x)),
                _ => {
                    let mut k = 0;
                    loop {
                        check_len(&c, rem.saturating_sub(k), "clone", &mut log.errs);
                        match c.next() {
                            Some(x) => v.push(x),
                            None => break,
                        }
                        k += 1;
                        if k > total + 8 {
                            log.errs.push("cloned iterator yields more elements than the collection holds".into());
                            break;
                        }
                    }
                }
            }
            log.cloned = Some(v);
        }
    }
    match plan.finish {
        0 => {
            let mut k = 0;
            loop {
                check_len(&it, rem.saturating_sub(k), "before next", &mut log.errs);
                match it.next() {
                    Some(x) => log.tail.push(x),
                    None => break,
                }
                k += 1;
                if k > total + 8 {
                    log.errs.push("iterator yields more elements than the collection holds".into());
                    break;
                }
            }
            for _ in 0..plan.extra {
                sim().probe(Probe::IterAfterExhaustion);
                if it.next().is_some() {
                    log.errs.push("next() returned Some after it had returned None".into());
                }
                check_len(&it, 0, "after exhaustion", &mut log.errs);
            }
        }
        1 => {
            sim().probe(Probe::IterFoldSwitch);
            let tail = it.fold(Vec::new(), |mut acc, x| {
                acc.push(x);
                acc
            });
            log.tail = tail;
        }
        2 => {
            sim().probe(Probe::IterFoldSwitch);
            let mut tail = Vec::new();
            it.for_each(|x| tail.push(x));
            log.tail = tail;
        }
        3 => drop(it),
        4 => std::mem::forget(it),
        5 => {
            log.counted = Some(it.count());
        }
        6 => {
            let l = it.last();
            log.counted = Some(if l.is_some() { 1 } else { 0 });
            if let Some(x) = l {
                log.tail.push(x);
            }
        }
        _ => {
            // nth(1): skips one, yields one
            let mut k = 0;
            while let Some(x) = it.nth(1) {
                log.tail.push(x);
                k += 1;
                if k > total + 8 {
                    break;
                }
            }
            log.counted = Some(usize::MAX);
        }
    }
    log
}

/// Multiset inclusion / equality helpers on sorted vectors.
pub fn is_sub_multiset(a: &[Item], b: &[Item]) -> bool {
    let mut a = a.to_vec();
    let mut b = b.to_vec();
    a.sort();
    b.sort();
    let mut j = 0;
    for x in &a {
        while j < b.len() && b[j] < *x {
            j += 1;
        }
        if j >= b.len() || b[j] != *x {
            return false;
        }
        j += 1;
    }
    true
}

pub fn multiset_minus(b: &[Item], a: &[Item]) -> Vec<Item> {
    let mut b = b.to_vec();
    for x in a {
        if let Some(p) = b.iter().position(|y| y == x) {
            b.swap_remove(p);
        }
    }
    b.sort();
    b
}

/// Checks an iterator log against the projected model contents. Returns an error description.
pub fn judge(log: &IterLog, model: &[Item], plan: &IterPlan) -> Option<String> {
    if let Some(e) = log.errs.first() {
        return Some(e.clone());
    }
    let mut all = log.head.clone();
    all.extend(log.tail.iter().copied());
    if !is_sub_multiset(&all, model) {
        return Some(format!("yielded {} items that are not a sub-multiset of the {} stored elements (an element twice, or one that is not stored)", all.len(), model.len()));
    }
    let rest = multiset_minus(model, &log.head);
    if plan.exhausts() && log.head.len() == plan.n_next.min(model.len()) {
        let mut t = log.tail.clone();
        t.sort();
        if t != rest {
            return Some(format!("after {} next() calls the remaining traversal (mode {}) yielded {} items, {} remain", log.head.len(), plan.finish, t.len(), rest.len()));
        }
    }
    if log.head.len() != plan.n_next.min(model.len()) {
        return Some(format!("next() returned None after {} items, the collection holds {}", log.head.len(), model.len()));
    }
    if let Some(c) = &log.cloned {
        let mut c = c.clone();
        c.sort();
        if c != rest {
            return Some(format!("a clone taken after {} items yielded {} items, {} remain", log.head.len(), c.len(), rest.len()));
        }
    }
    match (plan.finish, log.counted) {
        (5, Some(n)) if n != rest.len() => return Some(format!("count() = {n}, {} remain", rest.len())),
        (6, Some(n)) if (n == 1) != !rest.is_empty() => return Some(format!("last() is_some = {}, {} remain", n == 1, rest.len())),
        (7, _) => {
            if log.tail.len() != rest.len() / 2 {
                return Some(format!("nth(1) loop yielded {} items, {} remain", log.tail.len(), rest.len()));
            }
        }
        _ => {}
    }
    None
}

/// Drives an `extract_if` iterator: `steps` calls of next() (all, if negative), asking for size_hint() before every
/// call, and after exhaustion two more next() calls (the iterators are fused). `n0` is the number of elements the
/// collection held. The hints must be true bounds: never below what is still yielded (known once exhausted), never
/// above the elements not yet yielded.
pub fn drive_extract<I: Iterator>(it: &mut I, steps: i64, n0: usize) -> (Vec<I::Item>, Vec<String>) {
    let mut got = Vec::new();
    let mut hints = Vec::new();
    let mut errs = Vec::new();
    let mut exhausted = false;
    let mut n = 0;
    while steps < 0 || n < steps {
        hints.push(it.size_hint());
        match it.next() {
            Some(x) => got.push(x),
            None => {
                exhausted = true;
                break;
            }
        }
        n += 1;
    }
    if exhausted {
        for _ in 0..2 {
            if let Some(x) = it.next() {
                errs.push("next() returned an element after it had returned None".to_string());
                got.push(x);
            }
        }
    }
    if !hints.is_empty() {
        sim().probe(Probe::ExtractSizeHint);
    }
    for (i, (lo, hi)) in hints.iter().enumerate() {
        let later = got.len().saturating_sub(i);
        if hi.map_or(false, |h| h < later) {
            errs.push(format!("size_hint() before call {i} was {:?}, but {later} more elements were yielded", (lo, hi)));
        }
        if exhausted && *lo > later {
            errs.push(format!("size_hint() before call {i} promised at least {lo} elements, {later} were yielded"));
        }
        if hi.map_or(false, |h| h > n0.saturating_sub(i)) {
            errs.push(format!("size_hint() before call {i} was {:?} with {} elements left in a collection of {n0}", (lo, hi), n0.saturating_sub(i)));
        }
    }
    (got, errs)
}
