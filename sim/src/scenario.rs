//! The unit of execution and of replay: an explicit, JSON-serialisable scenario. The executor is
//! a pure function of it; the generator turns (seed, profile) into one; the minimiser edits it.

use crate::plan::Plan;
use crate::state::{Class, EqMode, Refuse};
use serde::{Deserialize, Serialize};

#[derive(Clone, Copy, Debug, PartialEq, Eq, Hash, PartialOrd, Ord, Serialize, Deserialize)]
pub enum Kd {
    // construction / destruction of a slot
    New,
    WithCapacity,
    DropSlot,
    // plain map / set operations
    Insert,
    TryInsert,
    Get,
    GetMut,
    GetView,
    ContainsKey,
    GetKeyValue,
    GetKeyValueMut,
    Remove,
    RemoveEntry,
    RemoveView,
    Extend,
    ExtendRef,
    FromIter,
    Clear,
    Reserve,
    TryReserve,
    ShrinkTo,
    ShrinkToFit,
    Retain,
    ExtractIf,
    Drain,
    Iter,
    IntoIter,
    CloneTo,
    CloneFrom,
    EqSlots,
    GetMany,
    GetManyKv,
    Entry,
    // set-specific
    Replace,
    Take,
    GetOrInsert,
    GetOrInsertWith,
    SetIter,
    SetPred,
    SetOp,
    SetOpAssign,
    // table-specific
    TFind,
    TFindMut,
    TFindEntry,
    TEntry,
    TInsertUnique,
    TRemoveReinsert,
    TIterHash,
    TIterHashMut,
    TGetMany,
    // rayon
    Par,
    // serde
    SerdeRoundTrip,
    SerdeStream,
    // capacity probes
    FillNoAlloc,
    // no-op marker used by the minimiser
    Nop,
}

#[derive(Clone, Debug, PartialEq, Eq, Serialize, Deserialize)]
pub struct Fault {
    /// Callback class that panics.
    pub c: Class,
    /// Its k-th invocation (1-based) inside the operation.
    pub k: u32,
}

fn is_zero_u8(x: &u8) -> bool {
    *x == 0
}
fn is_zero(x: &i64) -> bool {
    *x == 0
}
fn is_never(r: &Refuse) -> bool {
    *r == Refuse::Never
}
fn never() -> Refuse {
    Refuse::Never
}

#[derive(Clone, Debug, PartialEq, Eq, Serialize, Deserialize)]
pub struct Op {
    pub k: Kd,
    /// primary slot
    #[serde(default, skip_serializing_if = "is_zero_u8")]
    pub s: u8,
    /// secondary slot
    #[serde(default, skip_serializing_if = "is_zero_u8")]
    pub t: u8,
    #[serde(default, skip_serializing_if = "is_zero")]
    pub a: i64,
    #[serde(default, skip_serializing_if = "is_zero")]
    pub b: i64,
    #[serde(default, skip_serializing_if = "is_zero")]
    pub c: i64,
    #[serde(default, skip_serializing_if = "Vec::is_empty")]
    pub v: Vec<i64>,
    /// fault F1..F7: the k-th callback of a class panics inside this operation
    #[serde(default, skip_serializing_if = "Option::is_none")]
    pub f: Option<Fault>,
    /// fault F8: allocator refusal mode during this operation
    #[serde(default = "never", skip_serializing_if = "is_never")]
    pub r: Refuse,
}

impl Op {
    pub fn new(k: Kd) -> Op {
        Op { k, s: 0, t: 0, a: 0, b: 0, c: 0, v: Vec::new(), f: None, r: Refuse::Never }
    }
    pub fn s(mut self, s: usize) -> Op {
        self.s = s as u8;
        self
    }
    pub fn t(mut self, t: usize) -> Op {
        self.t = t as u8;
        self
    }
    pub fn a(mut self, a: i64) -> Op {
        self.a = a;
        self
    }
    pub fn b(mut self, b: i64) -> Op {
        self.b = b;
        self
    }
    pub fn c(mut self, c: i64) -> Op {
        self.c = c;
        self
    }
    pub fn v(mut self, v: Vec<i64>) -> Op {
        self.v = v;
        self
    }
}

#[derive(Clone, Debug, PartialEq, Eq, Serialize, Deserialize)]
pub struct Config {
    /// hash plan per slot
    pub plans: Vec<Plan>,
    #[serde(default = "lawful")]
    pub eq_mode: EqMode,
    #[serde(default)]
    pub byz_seed: u64,
    /// allocator returns pointers aligned to exactly the requested alignment
    #[serde(default = "yes")]
    pub exact_align: bool,
    /// per-operation callback cap (0 = none): divergence verdict for C05/C13
    #[serde(default)]
    pub callback_cap: u64,
    /// check level: 0 = safety only (byzantine), 1 = full functional
    #[serde(default = "one")]
    pub functional: u8,
    /// full get-sweep after every operation when len <= this
    #[serde(default = "sweep_default")]
    pub sweep_below: u32,
    /// C13: allocation_size() must stay <= churn_bound x the allocation of a fresh
    /// with_capacity(peak live size) at every step (0 = not checked)
    #[serde(default)]
    pub churn_bound: u32,
    /// C18: check the scanner primitives against their byte-by-byte definition after every step
    #[serde(default)]
    pub group_monitor: bool,
}
fn lawful() -> EqMode {
    EqMode::Lawful
}
fn yes() -> bool {
    true
}
fn one() -> u8 {
    1
}
fn sweep_default() -> u32 {
    48
}

#[derive(Clone, Debug, PartialEq, Eq, Serialize, Deserialize)]
pub struct Scenario {
    pub property: String,
    pub world: String,
    pub seed: u64,
    pub cfg: Config,
    pub ops: Vec<Op>,
}

/// A violation of some property, found by an oracle.
#[derive(Clone, Debug, Serialize, Deserialize)]
pub struct Violation {
    /// e.g. "ret/Insert", "inv/I2", "ledger/double-drop"
    pub class: String,
    pub op_index: usize,
    pub op_kind: String,
    pub detail: String,
}
