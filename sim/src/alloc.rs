//! Seam S4: the allocator every simulated collection uses. Backed by the system allocator,
//! with red zones, poison, quarantine, an exact ledger, refusal and a hard ceiling.

use crate::state::{sim, Block, Refuse, Sim, SimCeiling};
use allocator_api2::alloc::{AllocError, Allocator};
use std::alloc::Layout;
use std::ptr::NonNull;

const CANARY_FRONT: u8 = 0xC5;
const CANARY_BACK: u8 = 0x5C;
const POISON_ALLOC: u8 = 0xA5;
const POISON_FREE: u8 = 0xDD;
const BACK: usize = 32;
const QUARANTINE_MAX: usize = 64 << 20;

/// Under AddressSanitizer (HBSIM_ASAN=1) the seam adds no red zones and no quarantine of its own, so that
/// the sanitizer's shadow memory abuts the table's block and sees out-of-bounds reads and use after free.
pub fn asan_mode() -> bool {
    static M: std::sync::OnceLock<bool> = std::sync::OnceLock::new();
    *M.get_or_init(|| std::env::var("HBSIM_ASAN").map_or(false, |v| v == "1"))
}

/// The allocator seam. Instances are told apart by `pool`: a block must be returned through an instance of the pool
/// it was obtained from (two collections may have allocators that are not interchangeable; every slot of a world
/// gets its own pool, clones inherit their source's allocator as `Clone` prescribes).
#[derive(Clone, Copy, Debug, Default, PartialEq, Eq)]
pub struct SimAlloc {
    pub pool: u8,
}
/// The instance of pool 0 (temporaries).
#[allow(non_upper_case_globals)]
pub const SimAlloc: SimAlloc = SimAlloc { pool: 0 };
impl SimAlloc {
    pub fn of_slot(si: usize) -> SimAlloc {
        SimAlloc { pool: si as u8 + 1 }
    }
}

fn front_for(align: usize) -> usize {
    // smallest odd multiple of `align` that is >= 32, so the returned pointer is aligned to
    // `align` and (when the base is aligned to 2*align) to nothing larger.
    let mut k = (32 + align - 1) / align;
    if k % 2 == 0 {
        k += 1;
    }
    k * align
}

unsafe impl Allocator for SimAlloc {
    fn allocate(&self, layout: Layout) -> Result<NonNull<[u8]>, AllocError> {
        let size = layout.size();
        let align = layout.align();
        let exact;
        {
            let mut s = sim();
            s.requests_seen += 1;
            if size as u64 > s.op_max_request {
                s.op_max_request = size as u64;
            }
            // Every layout that reaches the allocator must be valid.
            if !align.is_power_of_two() || Layout::from_size_align(size, align).is_err() {
                s.violate("alloc/invalid-layout", format!("size {size} align {align}"));
                return Err(AllocError);
            }
            let refuse = match s.refuse {
                Refuse::Never => false,
                Refuse::All => true,
                Refuse::Above(lim) => size as u64 > lim,
                Refuse::Nth(j) => s.requests_seen == j,
            };
            if refuse {
                s.op_refused += 1;
                s.refused_total += 1;
                s.last_refused = Some((size, align));
                s.digest.add(0xA110C_F ^ size as u64);
                return Err(AllocError);
            }
            if size > s.ceiling {
                let detail = format!("request of {size} bytes (align {align}) above the {} byte ceiling", s.ceiling);
                s.violate("alloc/over-reservation", detail);
                drop(s);
                std::panic::panic_any(SimCeiling(size));
            }
            exact = s.exact_align;
        }
        let asan = asan_mode();
        let front = if asan { 0 } else { front_for(align) };
        let back = if asan { 0 } else { BACK };
        let under_align = if asan { align } else if exact { (align * 2).max(16) } else { align.max(16) };
        let under_size = (front + size + back).max(1);
        let ul = Layout::from_size_align(under_size, under_align).map_err(|_| AllocError)?;
        // SAFETY: under_size > 0
        let base = unsafe { std::alloc::alloc(ul) };
        if base.is_null() {
            // real memory exhaustion: report as a refusal the scenario did not ask for
            let mut s = sim();
            s.violate("harness/oom", format!("system allocator returned null for {under_size}"));
            return Err(AllocError);
        }
        // SAFETY: the block is under_size bytes long
        unsafe {
            std::ptr::write_bytes(base, CANARY_FRONT, front);
            std::ptr::write_bytes(base.add(front), POISON_ALLOC, size);
            std::ptr::write_bytes(base.add(front + size), CANARY_BACK, back);
        }
        let user = unsafe { base.add(front) };
        let mut s = sim();
        s.alloc_calls += 1;
        s.alloc_bytes += size as u64;
        s.op_alloc_calls += 1;
        s.op_alloc_bytes += size as u64;
        s.digest.add(0xA110C ^ ((size as u64) << 8) ^ align as u64);
        s.blocks.insert(
            user as usize,
            Block { size, align, base: base as usize, under_size, under_align, front, pool: self.pool },
        );
        Ok(NonNull::slice_from_raw_parts(unsafe { NonNull::new_unchecked(user) }, size))
    }

    unsafe fn deallocate(&self, ptr: NonNull<u8>, layout: Layout) {
        let addr = ptr.as_ptr() as usize;
        let mut s = sim();
        s.dealloc_calls += 1;
        s.op_dealloc_calls += 1;
        s.digest.add(0xDEA110C ^ ((layout.size() as u64) << 8) ^ layout.align() as u64);
        let blk = match s.blocks.remove(&addr) {
            Some(b) => b,
            None => {
                let in_q = s.quarantine.iter().any(|b| b.base + b.front == addr);
                if in_q {
                    s.violate("alloc/double-free", format!("block of size {} freed twice", layout.size()));
                } else {
                    s.violate("alloc/bad-free", format!("deallocate of unknown pointer, layout size {} align {}", layout.size(), layout.align()));
                }
                return;
            }
        };
        if blk.pool != self.pool {
            s.violate("alloc/wrong-allocator", format!("a block of size {} obtained from allocator instance {} was returned through instance {}", blk.size, blk.pool, self.pool));
        }
        if blk.size != layout.size() || blk.align != layout.align() {
            s.violate(
                "alloc/layout-mismatch",
                format!("allocated size {} align {}, freed with size {} align {}", blk.size, blk.align, layout.size(), layout.align()),
            );
        }
        if let Some(d) = check_canaries(&blk) {
            s.violate("alloc/canary", d);
        }
        if asan_mode() {
            free_block(&blk);
            return;
        }
        // poison and quarantine
        std::ptr::write_bytes((blk.base + blk.front) as *mut u8, POISON_FREE, blk.size);
        s.quarantine_bytes += blk.under_size;
        s.quarantine.push(blk);
        while s.quarantine_bytes > QUARANTINE_MAX && !s.quarantine.is_empty() {
            let b = s.quarantine.remove(0);
            if let Some(d) = check_quarantined(&b) {
                s.violate("alloc/use-after-free", d);
            }
            s.quarantine_bytes -= b.under_size;
            free_block(&b);
        }
    }
}

fn free_block(b: &Block) {
    // SAFETY: the block was allocated with exactly this layout
    unsafe { std::alloc::dealloc(b.base as *mut u8, Layout::from_size_align_unchecked(b.under_size, b.under_align)) }
}

pub fn check_canaries(b: &Block) -> Option<String> {
    // SAFETY: the block is live memory owned by the allocator seam
    unsafe {
        let p = b.base as *const u8;
        for i in 0..b.front {
            if *p.add(i) != CANARY_FRONT {
                return Some(format!("write {} bytes before a block of size {} align {}", b.front - i, b.size, b.align));
            }
        }
        let back = b.under_size.saturating_sub(b.front + b.size).min(BACK);
        for i in 0..back {
            if *p.add(b.front + b.size + i) != CANARY_BACK {
                return Some(format!("write {} bytes past the end of a block of size {} align {}", i, b.size, b.align));
            }
        }
    }
    None
}

fn check_quarantined(b: &Block) -> Option<String> {
    if let Some(d) = check_canaries(b) {
        return Some(d);
    }
    unsafe {
        let p = (b.base + b.front) as *const u8;
        for i in 0..b.size {
            if *p.add(i) != POISON_FREE {
                return Some(format!("write to offset {} of a freed block of size {}", i, b.size));
            }
        }
    }
    None
}

/// Checks the red zones of every live block (cheap; after every operation).
pub fn audit_live(s: &Sim) -> Vec<(String, String)> {
    let mut out = Vec::new();
    for b in s.blocks.values() {
        if let Some(d) = check_canaries(b) {
            out.push(("alloc/canary".to_string(), d));
        }
    }
    out
}

/// Checks every live and quarantined block (end of run); returns findings as (class, detail).
pub fn audit(s: &Sim) -> Vec<(String, String)> {
    let mut out = audit_live(s);
    for b in &s.quarantine {
        if let Some(d) = check_quarantined(b) {
            out.push(("alloc/use-after-free".to_string(), d));
        }
    }
    out
}

/// Number of bytes currently held by live blocks (user sizes).
pub fn live_bytes(s: &Sim) -> u64 {
    s.blocks.values().map(|b| b.size as u64).sum()
}

/// Frees every block of a finished run (live ones are leaks already reported by the executor).
pub fn release_all(old: Sim) {
    for b in old.blocks.values() {
        free_block(b);
    }
    for b in &old.quarantine {
        free_block(b);
    }
}
