//! Seams S2/S3: simulator-owned key, value and element types. All are plain data (no heap
//! pointers), so a double drop or a read of a stale slot is observable without the harness itself
//! committing undefined behaviour. Types with room carry a unique serial registered in the ledger.

use crate::state::{sim, tick, Class, EqMode, Probe};
use std::hash::{Hash, Hasher};

/// Token identifying an element instance in models: (id, serial); serial 0 = type has none.
pub type Tok = (u32, u32);

/// Holder of a sized borrowed form.
pub struct Own<T>(pub T);
impl<T> std::ops::Deref for Own<T> {
    type Target = T;
    fn deref(&self) -> &T {
        &self.0
    }
}

/// `entry_ref` entry of a simulator map.
pub type ERef<'a, 'b, K, V> = hashbrown::hash_map::EntryRef<'a, 'b, K, <K as KeyT>::View, V, crate::plan::SimBuildHasher, crate::alloc::SimAlloc>;

fn eq_answer(a: u32, b: u32) -> bool {
    let mut s = sim();
    match s.eq_mode {
        EqMode::Lawful => a == b,
        EqMode::Random => {
            s.probe(Probe::ByzEqAnswer);
            s.byz_rng.below(3) == 0
        }
        EqMode::AlwaysTrue => {
            s.probe(Probe::ByzEqAnswer);
            true
        }
        EqMode::AlwaysFalse => {
            s.probe(Probe::ByzEqAnswer);
            false
        }
        EqMode::Asym => {
            s.probe(Probe::ByzEqAnswer);
            a == b && a % 2 == 0
        }
    }
}

/// Equality of ids under the current (possibly byzantine) equality mode; counts as an Eq callback.
pub fn sim_eq(a: u32, b: u32) -> bool {
    tick(Class::Eq);
    eq_answer(a, b)
}

pub trait KeyT: Hash + Eq + Clone + Send + Sync + 'static + for<'a> From<&'a <Self as KeyT>::View> + serde::Serialize + serde::de::DeserializeOwned {
    const NAME: &'static str;
    const HAS_SERIAL: bool;
    const HAS_DROP: bool;
    /// Largest usable id + 1.
    const UNIVERSE: u32;
    /// The borrowed form lookups are made with (may be unsized, like `str` for `String`).
    type View: ?Sized + Hash + hashbrown::Equivalent<Self> + Sync;
    /// What `view()` hands out: something that derefs to the borrowed form.
    type Holder: std::ops::Deref<Target = Self::View>;
    /// The number the hash plan sees for this key id (the id itself unless the key hashes as a byte string).
    fn plan_id(id: u32) -> u32 {
        id
    }
    /// id of a borrowed view
    fn view_id(v: &Self::View) -> u32;
    fn make(id: u32) -> Self;
    fn id(&self) -> u32;
    fn serial(&self) -> u32;
    fn view(id: u32) -> Self::Holder;
    fn tok(&self) -> Tok {
        (self.id(), self.serial())
    }
    /// Padding / registry consistency of a value read through a reference handed out by hashbrown.
    fn intact(&self) -> bool;
    /// `EntryRef::key` and `EntryRef::or_insert_with_key` need `Self: Borrow<Self::View>`: key types that embed
    /// their view override these two hooks (id of the key the entry reports / the call itself).
    const BORROWS: bool = false;
    fn eref_key<V: ValT>(_e: &ERef<'_, '_, Self, V>) -> u32 {
        unreachable!()
    }
    fn eref_or_insert_with_key<'a, V: ValT>(_e: ERef<'a, '_, Self, V>, _f: &mut dyn FnMut(u32) -> V) -> &'a mut V {
        unreachable!()
    }
}

pub trait ValT: Default + Clone + PartialEq + Send + Sync + 'static + serde::Serialize + serde::de::DeserializeOwned {
    const NAME: &'static str;
    /// false for zero-sized values, which cannot store a payload
    const STORES: bool = true;
    /// the payload NAN_VAL compares unequal to itself
    const HAS_NAN: bool = false;
    const HAS_SERIAL: bool;
    fn make(v: u32) -> Self;
    fn val(&self) -> u32;
    fn set(&mut self, v: u32);
    fn serial(&self) -> u32;
    fn tok(&self) -> Tok {
        (self.val(), self.serial())
    }
    fn intact(&self) -> bool;
}

fn live(serial: u32, id: u32) -> bool {
    sim().is_live(serial, id)
}

// ------------------------------------------------------------------ Key8 (8 bytes, align 4)
#[derive(Debug)]
pub struct Key8 {
    pub id: u32,
    pub serial: u32,
}
#[repr(transparent)]
pub struct View8(pub u32);
impl std::borrow::Borrow<View8> for Key8 {
    fn borrow(&self) -> &View8 {
        // SAFETY: the view is a transparent wrapper of the u32 id field
        unsafe { &*(&self.id as *const u32 as *const View8) }
    }
}
impl Hash for View8 {
    fn hash<H: Hasher>(&self, h: &mut H) {
        tick(Class::Hash);
        h.write_u32(self.0);
    }
}
impl hashbrown::Equivalent<Key8> for View8 {
    fn equivalent(&self, k: &Key8) -> bool {
        sim_eq(self.0, k.id)
    }
}
impl Hash for Key8 {
    fn hash<H: Hasher>(&self, h: &mut H) {
        tick(Class::Hash);
        h.write_u32(self.id);
    }
}
impl PartialEq for Key8 {
    fn eq(&self, o: &Key8) -> bool {
        sim_eq(self.id, o.id)
    }
}
impl Eq for Key8 {}
impl Clone for Key8 {
    fn clone(&self) -> Key8 {
        tick(Class::Clone);
        Key8::make(self.id)
    }
}
impl Drop for Key8 {
    fn drop(&mut self) {
        sim().drop_serial(self.serial, self.id);
        tick(Class::Drop);
    }
}
impl From<&View8> for Key8 {
    fn from(v: &View8) -> Key8 {
        tick(Class::Into);
        <Key8 as KeyT>::make(v.0)
    }
}
impl KeyT for Key8 {
    const BORROWS: bool = true;
    fn eref_key<V: ValT>(e: &ERef<'_, '_, Self, V>) -> u32 {
        e.key().0
    }
    fn eref_or_insert_with_key<'a, V: ValT>(e: ERef<'a, '_, Self, V>, f: &mut dyn FnMut(u32) -> V) -> &'a mut V {
        e.or_insert_with_key(|q| f(q.0))
    }
    fn view_id(v: &View8) -> u32 {
        v.0
    }
    const NAME: &'static str = "Key8";
    const HAS_SERIAL: bool = true;
    const HAS_DROP: bool = true;
    const UNIVERSE: u32 = u32::MAX;
    type View = View8;
    type Holder = Own<View8>;
    fn make(id: u32) -> Key8 {
        let serial = sim().new_serial(id);
        Key8 { id, serial }
    }
    fn id(&self) -> u32 {
        self.id
    }
    fn serial(&self) -> u32 {
        self.serial
    }
    fn view(id: u32) -> Own<View8> {
        Own(View8(id))
    }
    fn intact(&self) -> bool {
        live(self.serial, self.id)
    }
}

// ------------------------------------------------------------------ Val8
#[derive(Debug)]
pub struct Val8 {
    pub val: u32,
    pub serial: u32,
}
impl Clone for Val8 {
    fn clone(&self) -> Val8 {
        tick(Class::Clone);
        Val8::make(self.val)
    }
}
impl Drop for Val8 {
    fn drop(&mut self) {
        // values are registered under id = u32::MAX - 1 so that a mutated `val` does not matter
        sim().drop_serial(self.serial, VAL_ID);
        tick(Class::Drop);
    }
}
pub const VAL_ID: u32 = u32::MAX - 1;
/// A payload that compares unequal to itself (like a NaN): `==` on collections must not assume reflexive values.
pub const NAN_VAL: u32 = 0x000F_FFF7;
impl PartialEq for Val8 {
    fn eq(&self, o: &Val8) -> bool {
        self.val == o.val && self.val != NAN_VAL
    }
}
impl Default for Val8 {
    fn default() -> Val8 {
        <Val8 as ValT>::make(0)
    }
}
impl ValT for Val8 {
    const NAME: &'static str = "Val8";
    const HAS_NAN: bool = true;
    const HAS_SERIAL: bool = true;
    fn make(v: u32) -> Val8 {
        let serial = sim().new_serial(VAL_ID);
        Val8 { val: v, serial }
    }
    fn val(&self) -> u32 {
        self.val
    }
    fn set(&mut self, v: u32) {
        self.val = v;
    }
    fn serial(&self) -> u32 {
        self.serial
    }
    fn intact(&self) -> bool {
        live(self.serial, VAL_ID)
    }
}

// ------------------------------------------------------------------ Big200 (200 bytes, align 8)
pub struct Big200 {
    pub val: u32,
    pub serial: u32,
    pub pad: [u64; 24],
}
fn pad_word(serial: u32, i: usize) -> u64 {
    crate::rng::splitmix(((serial as u64) << 8) | i as u64)
}
impl Clone for Big200 {
    fn clone(&self) -> Big200 {
        tick(Class::Clone);
        Big200::make(self.val)
    }
}
impl Drop for Big200 {
    fn drop(&mut self) {
        sim().drop_serial(self.serial, VAL_ID);
        tick(Class::Drop);
    }
}
impl PartialEq for Big200 {
    fn eq(&self, o: &Big200) -> bool {
        self.val == o.val && self.val != NAN_VAL
    }
}
impl Default for Big200 {
    fn default() -> Big200 {
        <Big200 as ValT>::make(0)
    }
}
impl ValT for Big200 {
    const NAME: &'static str = "Big200";
    const HAS_NAN: bool = true;
    const HAS_SERIAL: bool = true;
    fn make(v: u32) -> Big200 {
        let serial = sim().new_serial(VAL_ID);
        let mut pad = [0u64; 24];
        for (i, p) in pad.iter_mut().enumerate() {
            *p = pad_word(serial, i);
        }
        Big200 { val: v, serial, pad }
    }
    fn val(&self) -> u32 {
        self.val
    }
    fn set(&mut self, v: u32) {
        self.val = v;
    }
    fn serial(&self) -> u32 {
        self.serial
    }
    fn intact(&self) -> bool {
        live(self.serial, VAL_ID) && self.pad.iter().enumerate().all(|(i, &p)| p == pad_word(self.serial, i))
    }
}

// ------------------------------------------------------------------ Align64 (64 bytes, align 64)
#[repr(align(64))]
pub struct Align64 {
    pub val: u32,
    pub serial: u32,
}
impl Clone for Align64 {
    fn clone(&self) -> Align64 {
        tick(Class::Clone);
        Align64::make(self.val)
    }
}
impl Drop for Align64 {
    fn drop(&mut self) {
        sim().drop_serial(self.serial, VAL_ID);
        tick(Class::Drop);
    }
}
impl PartialEq for Align64 {
    fn eq(&self, o: &Align64) -> bool {
        self.val == o.val && self.val != NAN_VAL
    }
}
impl Default for Align64 {
    fn default() -> Align64 {
        <Align64 as ValT>::make(0)
    }
}
impl ValT for Align64 {
    const NAME: &'static str = "Align64";
    const HAS_NAN: bool = true;
    const HAS_SERIAL: bool = true;
    fn make(v: u32) -> Align64 {
        let serial = sim().new_serial(VAL_ID);
        Align64 { val: v, serial }
    }
    fn val(&self) -> u32 {
        self.val
    }
    fn set(&mut self, v: u32) {
        self.val = v;
    }
    fn serial(&self) -> u32 {
        self.serial
    }
    fn intact(&self) -> bool {
        (self as *const Align64 as usize) % 64 == 0 && live(self.serial, VAL_ID)
    }
}

// ------------------------------------------------------------------ Align128 (128 bytes, align 128: beyond a cache line, the largest alignment the layouts are sampled at)
#[repr(align(128))]
pub struct Align128 {
    pub val: u32,
    pub serial: u32,
}
impl Clone for Align128 {
    fn clone(&self) -> Align128 {
        tick(Class::Clone);
        Align128::make(self.val)
    }
}
impl Drop for Align128 {
    fn drop(&mut self) {
        sim().drop_serial(self.serial, VAL_ID);
        tick(Class::Drop);
    }
}
impl PartialEq for Align128 {
    fn eq(&self, o: &Align128) -> bool {
        self.val == o.val && self.val != NAN_VAL
    }
}
impl Default for Align128 {
    fn default() -> Align128 {
        <Align128 as ValT>::make(0)
    }
}
impl ValT for Align128 {
    const NAME: &'static str = "Align128";
    const HAS_NAN: bool = true;
    const HAS_SERIAL: bool = true;
    fn make(v: u32) -> Align128 {
        let serial = sim().new_serial(VAL_ID);
        Align128 { val: v, serial }
    }
    fn val(&self) -> u32 {
        self.val
    }
    fn set(&mut self, v: u32) {
        self.val = v;
    }
    fn serial(&self) -> u32 {
        self.serial
    }
    fn intact(&self) -> bool {
        (self as *const Align128 as usize) % 128 == 0 && live(self.serial, VAL_ID)
    }
}

// ------------------------------------------------------------------ PodKey / u32: no drop glue at all
#[derive(Clone, Copy, Debug)]
pub struct PodKey(pub u32);
#[repr(transparent)]
pub struct ViewPod(pub u32);
impl std::borrow::Borrow<ViewPod> for PodKey {
    fn borrow(&self) -> &ViewPod {
        // SAFETY: the view is a transparent wrapper of the u32 id field
        unsafe { &*(&self.0 as *const u32 as *const ViewPod) }
    }
}
impl Hash for ViewPod {
    fn hash<H: Hasher>(&self, h: &mut H) {
        tick(Class::Hash);
        h.write_u32(self.0);
    }
}
impl hashbrown::Equivalent<PodKey> for ViewPod {
    fn equivalent(&self, k: &PodKey) -> bool {
        sim_eq(self.0, k.0)
    }
}
impl Hash for PodKey {
    fn hash<H: Hasher>(&self, h: &mut H) {
        tick(Class::Hash);
        h.write_u32(self.0);
    }
}
impl PartialEq for PodKey {
    fn eq(&self, o: &PodKey) -> bool {
        sim_eq(self.0, o.0)
    }
}
impl Eq for PodKey {}
impl From<&ViewPod> for PodKey {
    fn from(v: &ViewPod) -> PodKey {
        tick(Class::Into);
        <PodKey as KeyT>::make(v.0)
    }
}
impl KeyT for PodKey {
    const BORROWS: bool = true;
    fn eref_key<V: ValT>(e: &ERef<'_, '_, Self, V>) -> u32 {
        e.key().0
    }
    fn eref_or_insert_with_key<'a, V: ValT>(e: ERef<'a, '_, Self, V>, f: &mut dyn FnMut(u32) -> V) -> &'a mut V {
        e.or_insert_with_key(|q| f(q.0))
    }
    fn view_id(v: &ViewPod) -> u32 {
        v.0
    }
    const NAME: &'static str = "PodKey";
    const HAS_SERIAL: bool = false;
    const HAS_DROP: bool = false;
    const UNIVERSE: u32 = u32::MAX;
    type View = ViewPod;
    type Holder = Own<ViewPod>;
    fn make(id: u32) -> PodKey {
        PodKey(id)
    }
    fn id(&self) -> u32 {
        self.0
    }
    fn serial(&self) -> u32 {
        0
    }
    fn view(id: u32) -> Own<ViewPod> {
        Own(ViewPod(id))
    }
    fn intact(&self) -> bool {
        true
    }
}
impl ValT for u32 {
    const NAME: &'static str = "u32";
    const HAS_SERIAL: bool = false;
    fn make(v: u32) -> u32 {
        v
    }
    fn val(&self) -> u32 {
        *self
    }
    fn set(&mut self, v: u32) {
        *self = v;
    }
    fn serial(&self) -> u32 {
        0
    }
    fn intact(&self) -> bool {
        true
    }
}
/// 4-byte value with alignment 1: gives 5- and 6-byte pairs whose data part is not a multiple of the
/// control alignment (padding between data and control bytes).
#[derive(Clone, Copy, Debug, PartialEq, Default)]
#[repr(C, packed)]
pub struct P4(pub u32);
impl ValT for P4 {
    const NAME: &'static str = "P4";
    const HAS_SERIAL: bool = false;
    fn make(v: u32) -> P4 {
        P4(v)
    }
    fn val(&self) -> u32 {
        self.0
    }
    fn set(&mut self, v: u32) {
        self.0 = v;
    }
    fn serial(&self) -> u32 {
        0
    }
    fn intact(&self) -> bool {
        true
    }
}
/// Unit value, for sets (`HashSet<T>` is `HashMap<T, ()>`).
impl ValT for () {
    const NAME: &'static str = "unit";
    const STORES: bool = false;
    const HAS_SERIAL: bool = false;
    fn make(_: u32) {}
    fn val(&self) -> u32 {
        0
    }
    fn set(&mut self, _: u32) {}
    fn serial(&self) -> u32 {
        0
    }
    fn intact(&self) -> bool {
        true
    }
}

// ------------------------------------------------------------------ small droppable keys tracked as a multiset
macro_rules! small_key {
    ($name:ident, $view:ident, $int:ty, $ty:expr, $uni:expr) => {
        #[derive(Debug)]
        pub struct $name(pub $int);
        pub struct $view(pub u32);
        impl Hash for $view {
            fn hash<H: Hasher>(&self, h: &mut H) {
                tick(Class::Hash);
                h.write_u32(self.0);
            }
        }
        impl hashbrown::Equivalent<$name> for $view {
            fn equivalent(&self, k: &$name) -> bool {
                sim_eq(self.0, k.0 as u32)
            }
        }
        impl Hash for $name {
            fn hash<H: Hasher>(&self, h: &mut H) {
                tick(Class::Hash);
                h.write_u32(self.0 as u32);
            }
        }
        impl PartialEq for $name {
            fn eq(&self, o: &$name) -> bool {
                sim_eq(self.0 as u32, o.0 as u32)
            }
        }
        impl Eq for $name {}
        impl Clone for $name {
            fn clone(&self) -> $name {
                tick(Class::Clone);
                <$name as KeyT>::make(self.0 as u32)
            }
        }
        impl Drop for $name {
            fn drop(&mut self) {
                sim().ms_drop($ty, self.0 as u32);
                tick(Class::Drop);
            }
        }
        impl From<&$view> for $name {
            fn from(v: &$view) -> $name {
                tick(Class::Into);
                <$name as KeyT>::make(v.0)
            }
        }
        impl KeyT for $name {
            fn view_id(v: &$view) -> u32 {
                v.0
            }
            const NAME: &'static str = stringify!($name);
            const HAS_SERIAL: bool = false;
            const HAS_DROP: bool = true;
            const UNIVERSE: u32 = $uni;
            type View = $view;
            type Holder = Own<$view>;
            fn make(id: u32) -> $name {
                sim().ms_create($ty, id);
                $name(id as $int)
            }
            fn id(&self) -> u32 {
                self.0 as u32
            }
            fn serial(&self) -> u32 {
                0
            }
            fn view(id: u32) -> Own<$view> {
                Own($view(id))
            }
            fn intact(&self) -> bool {
                sim().multiset.get(&($ty, self.0 as u32)).copied().unwrap_or(0) > 0
            }
        }
    };
}
small_key!(KeyU8, ViewU8, u8, 1u8, 256);
small_key!(KeyU16, ViewU16, u16, 2u8, 65536);

// ------------------------------------------------------------------ KeyZ: zero-sized key (a collection holds at most one)
#[derive(Debug)]
pub struct KeyZ;
pub struct ViewZ;
impl Hash for ViewZ {
    fn hash<H: Hasher>(&self, h: &mut H) {
        tick(Class::Hash);
        h.write_u32(0);
    }
}
impl hashbrown::Equivalent<KeyZ> for ViewZ {
    fn equivalent(&self, _k: &KeyZ) -> bool {
        sim_eq(0, 0)
    }
}
impl Hash for KeyZ {
    fn hash<H: Hasher>(&self, h: &mut H) {
        tick(Class::Hash);
        h.write_u32(0);
    }
}
impl PartialEq for KeyZ {
    fn eq(&self, _o: &KeyZ) -> bool {
        sim_eq(0, 0)
    }
}
impl Eq for KeyZ {}
impl Clone for KeyZ {
    fn clone(&self) -> KeyZ {
        tick(Class::Clone);
        <KeyZ as KeyT>::make(0)
    }
}
impl Drop for KeyZ {
    fn drop(&mut self) {
        sim().ms_drop(3, 0);
        tick(Class::Drop);
    }
}
impl From<&ViewZ> for KeyZ {
    fn from(_v: &ViewZ) -> KeyZ {
        tick(Class::Into);
        <KeyZ as KeyT>::make(0)
    }
}
impl KeyT for KeyZ {
    const NAME: &'static str = "KeyZ";
    const HAS_SERIAL: bool = false;
    const HAS_DROP: bool = true;
    const UNIVERSE: u32 = 1;
    type View = ViewZ;
    type Holder = Own<ViewZ>;
    fn view_id(_v: &ViewZ) -> u32 {
        0
    }
    fn make(_id: u32) -> KeyZ {
        sim().ms_create(3, 0);
        KeyZ
    }
    fn id(&self) -> u32 {
        0
    }
    fn serial(&self) -> u32 {
        0
    }
    fn view(_id: u32) -> Own<ViewZ> {
        Own(ViewZ)
    }
    fn intact(&self) -> bool {
        true
    }
}

// ------------------------------------------------------------------ KeyS: string-like key, borrowed form `[u8]` (unsized)
/// 32 texts of 8 bytes; key id = text * 8 + (length - 1): the keys are the non-empty prefixes of the texts, so that
/// borrowed forms of different keys can start at the same address and differ only in length (as `&s[..3]` and
/// `&s[..6]` do for string keys).
static TEXTS: [[u8; 8]; 32] = {
    let mut t = [[0u8; 8]; 32];
    let mut v = 0;
    while v < 32 {
        let mut j = 0;
        while j < 8 {
            t[v][j] = (v * 8 + j) as u8;
            j += 1;
        }
        v += 1;
    }
    t
};
pub fn text_of(id: u32) -> &'static [u8] {
    let id = id % 256;
    &TEXTS[(id / 8) as usize][..(id % 8 + 1) as usize]
}
fn text_id(b: &[u8]) -> u32 {
    (b[0] as u32 / 8) * 8 + b.len() as u32 - 1
}
#[derive(Debug)]
pub struct KeyS {
    pub id: u32,
    pub serial: u32,
}
impl hashbrown::Equivalent<KeyS> for [u8] {
    fn equivalent(&self, k: &KeyS) -> bool {
        sim_eq(text_id(self), k.id)
    }
}
impl Hash for KeyS {
    fn hash<H: Hasher>(&self, h: &mut H) {
        tick(Class::Hash);
        // exactly as the borrowed form hashes (length prefix + bytes); `[u8]`'s own impl cannot count the callback
        text_of(self.id).hash(h);
    }
}
impl PartialEq for KeyS {
    fn eq(&self, o: &KeyS) -> bool {
        sim_eq(self.id, o.id)
    }
}
impl Eq for KeyS {}
impl Clone for KeyS {
    fn clone(&self) -> KeyS {
        tick(Class::Clone);
        <KeyS as KeyT>::make(self.id)
    }
}
impl Drop for KeyS {
    fn drop(&mut self) {
        sim().drop_serial(self.serial, self.id);
        tick(Class::Drop);
    }
}
impl From<&[u8]> for KeyS {
    fn from(v: &[u8]) -> KeyS {
        tick(Class::Into);
        <KeyS as KeyT>::make(text_id(v))
    }
}
// (no `Borrow<[u8]>`: with it the blanket `Equivalent` impl would compare bytes without the simulator seeing the call)
impl KeyT for KeyS {
    const NAME: &'static str = "KeyS";
    const HAS_SERIAL: bool = true;
    const HAS_DROP: bool = true;
    const UNIVERSE: u32 = 256;
    type View = [u8];
    type Holder = &'static [u8];
    fn plan_id(id: u32) -> u32 {
        // what SimHasher folds from `[u8]::hash`: the length as usize bytes, then the bytes
        let b = text_of(id);
        let mut x = 0u32;
        for &c in b.len().to_ne_bytes().iter().chain(b.iter()) {
            x = x.wrapping_mul(31).wrapping_add(c as u32);
        }
        x
    }
    fn view_id(v: &[u8]) -> u32 {
        text_id(v)
    }
    fn make(id: u32) -> KeyS {
        let id = id % 256;
        KeyS { id, serial: sim().new_serial(id) }
    }
    fn id(&self) -> u32 {
        self.id
    }
    fn serial(&self) -> u32 {
        self.serial
    }
    fn view(id: u32) -> &'static [u8] {
        text_of(id)
    }
    fn intact(&self) -> bool {
        live(self.serial, self.id)
    }
}
impl serde::Serialize for KeyS {
    fn serialize<S: serde::Serializer>(&self, s: S) -> Result<S::Ok, S::Error> {
        s.serialize_u32(self.id)
    }
}
impl<'de> serde::Deserialize<'de> for KeyS {
    fn deserialize<D: serde::Deserializer<'de>>(d: D) -> Result<KeyS, D::Error> {
        let id = u32::deserialize(d)?;
        Ok(<KeyS as KeyT>::make(id))
    }
}

// ------------------------------------------------------------------ Key24 (24 bytes, align 8)
#[derive(Debug)]
pub struct Key24 {
    pub id: u32,
    pub serial: u32,
    pub pad: [u64; 2],
}
#[repr(transparent)]
pub struct View24(pub u32);
impl std::borrow::Borrow<View24> for Key24 {
    fn borrow(&self) -> &View24 {
        // SAFETY: the view is a transparent wrapper of the u32 id field
        unsafe { &*(&self.id as *const u32 as *const View24) }
    }
}
impl Hash for View24 {
    fn hash<H: Hasher>(&self, h: &mut H) {
        tick(Class::Hash);
        h.write_u32(self.0);
    }
}
impl hashbrown::Equivalent<Key24> for View24 {
    fn equivalent(&self, k: &Key24) -> bool {
        sim_eq(self.0, k.id)
    }
}
impl Hash for Key24 {
    fn hash<H: Hasher>(&self, h: &mut H) {
        tick(Class::Hash);
        h.write_u32(self.id);
    }
}
impl PartialEq for Key24 {
    fn eq(&self, o: &Key24) -> bool {
        sim_eq(self.id, o.id)
    }
}
impl Eq for Key24 {}
impl Clone for Key24 {
    fn clone(&self) -> Key24 {
        tick(Class::Clone);
        Key24::make(self.id)
    }
}
impl Drop for Key24 {
    fn drop(&mut self) {
        sim().drop_serial(self.serial, self.id);
        tick(Class::Drop);
    }
}
impl From<&View24> for Key24 {
    fn from(v: &View24) -> Key24 {
        tick(Class::Into);
        <Key24 as KeyT>::make(v.0)
    }
}
impl KeyT for Key24 {
    const BORROWS: bool = true;
    fn eref_key<V: ValT>(e: &ERef<'_, '_, Self, V>) -> u32 {
        e.key().0
    }
    fn eref_or_insert_with_key<'a, V: ValT>(e: ERef<'a, '_, Self, V>, f: &mut dyn FnMut(u32) -> V) -> &'a mut V {
        e.or_insert_with_key(|q| f(q.0))
    }
    fn view_id(v: &View24) -> u32 {
        v.0
    }
    const NAME: &'static str = "Key24";
    const HAS_SERIAL: bool = true;
    const HAS_DROP: bool = true;
    const UNIVERSE: u32 = u32::MAX;
    type View = View24;
    type Holder = Own<View24>;
    fn make(id: u32) -> Key24 {
        let serial = sim().new_serial(id);
        Key24 { id, serial, pad: [pad_word(serial, 0), pad_word(serial, 1)] }
    }
    fn id(&self) -> u32 {
        self.id
    }
    fn serial(&self) -> u32 {
        self.serial
    }
    fn view(id: u32) -> Own<View24> {
        Own(View24(id))
    }
    fn intact(&self) -> bool {
        live(self.serial, self.id) && self.pad == [pad_word(self.serial, 0), pad_word(self.serial, 1)]
    }
}

// ------------------------------------------------------------------ HashTable elements
/// Element trait for the explicit-hash table worlds. The hash is stored in the element when
/// there is room, otherwise the world keeps a constant hash.
pub trait ElemT: Clone + Send + Sync + 'static {
    const NAME: &'static str;
    const HAS_SERIAL: bool;
    const HAS_DROP: bool;
    const IS_ZST: bool;
    fn make(id: u32, hash: u64) -> Self;
    fn dup(&self) -> Self;
    fn id(&self) -> u32;
    fn serial(&self) -> u32;
    fn hash(&self) -> u64;
    fn payload(&self) -> u32;
    fn set_payload(&mut self, p: u32);
    fn intact(&self) -> bool;
    fn tok(&self) -> Tok {
        (self.id(), self.serial())
    }
}

#[derive(Debug)]
pub struct Elem24 {
    pub id: u32,
    pub serial: u32,
    pub hash: u64,
    pub payload: u32,
    pub check: u32,
}
impl Drop for Elem24 {
    fn drop(&mut self) {
        sim().drop_serial(self.serial, self.id);
        tick(Class::Drop);
    }
}
impl ElemT for Elem24 {
    const NAME: &'static str = "Elem24";
    const HAS_SERIAL: bool = true;
    const HAS_DROP: bool = true;
    const IS_ZST: bool = false;
    fn make(id: u32, hash: u64) -> Elem24 {
        let serial = sim().new_serial(id);
        Elem24 { id, serial, hash, payload: 0, check: serial ^ 0x5a5a_5a5a }
    }
    fn dup(&self) -> Elem24 {
        tick(Class::Clone);
        let mut e = Elem24::make(self.id, self.hash);
        e.payload = self.payload;
        e
    }
    fn id(&self) -> u32 {
        self.id
    }
    fn serial(&self) -> u32 {
        self.serial
    }
    fn hash(&self) -> u64 {
        self.hash
    }
    fn payload(&self) -> u32 {
        self.payload
    }
    fn set_payload(&mut self, p: u32) {
        self.payload = p;
    }
    fn intact(&self) -> bool {
        live(self.serial, self.id) && self.check == self.serial ^ 0x5a5a_5a5a
    }
}
impl Clone for Elem24 {
    fn clone(&self) -> Elem24 {
        self.dup()
    }
}

/// Zero-sized element with a destructor (counted).
#[derive(Debug)]
pub struct ZstDrop;
impl Drop for ZstDrop {
    fn drop(&mut self) {
        sim().ms_drop(9, 0);
        tick(Class::Drop);
    }
}
impl ElemT for ZstDrop {
    const NAME: &'static str = "ZstDrop";
    const HAS_SERIAL: bool = false;
    const HAS_DROP: bool = true;
    const IS_ZST: bool = true;
    fn make(_id: u32, _hash: u64) -> ZstDrop {
        sim().ms_create(9, 0);
        ZstDrop
    }
    fn dup(&self) -> ZstDrop {
        tick(Class::Clone);
        ZstDrop::make(0, 0)
    }
    fn id(&self) -> u32 {
        0
    }
    fn serial(&self) -> u32 {
        0
    }
    fn hash(&self) -> u64 {
        0
    }
    fn payload(&self) -> u32 {
        0
    }
    fn set_payload(&mut self, _p: u32) {}
    fn intact(&self) -> bool {
        true
    }
}
impl Clone for ZstDrop {
    fn clone(&self) -> ZstDrop {
        self.dup()
    }
}

/// Zero-sized element with alignment 32: every reference handed out must still be 32-aligned.
#[derive(Debug, Clone, Copy)]
#[repr(align(32))]
pub struct ZstAlign;
impl ElemT for ZstAlign {
    const NAME: &'static str = "ZstAlign";
    const HAS_SERIAL: bool = false;
    const HAS_DROP: bool = false;
    const IS_ZST: bool = true;
    fn make(_id: u32, _hash: u64) -> ZstAlign {
        ZstAlign
    }
    fn dup(&self) -> ZstAlign {
        ZstAlign
    }
    fn id(&self) -> u32 {
        0
    }
    fn serial(&self) -> u32 {
        0
    }
    fn hash(&self) -> u64 {
        0
    }
    fn payload(&self) -> u32 {
        0
    }
    fn set_payload(&mut self, _p: u32) {}
    fn intact(&self) -> bool {
        (self as *const ZstAlign as usize) % 32 == 0
    }
}

/// Zero-sized element without drop glue.
#[derive(Debug, Clone, Copy)]
pub struct ZstPod;
impl ElemT for ZstPod {
    const NAME: &'static str = "ZstPod";
    const HAS_SERIAL: bool = false;
    const HAS_DROP: bool = false;
    const IS_ZST: bool = true;
    fn make(_id: u32, _hash: u64) -> ZstPod {
        ZstPod
    }
    fn dup(&self) -> ZstPod {
        ZstPod
    }
    fn id(&self) -> u32 {
        0
    }
    fn serial(&self) -> u32 {
        0
    }
    fn hash(&self) -> u64 {
        0
    }
    fn payload(&self) -> u32 {
        0
    }
    fn set_payload(&mut self, _p: u32) {}
    fn intact(&self) -> bool {
        true
    }
}

// ------------------------------------------------------------------ serde (C20): elements travel as their u32 id / payload
macro_rules! serde_key {
    ($t:ty) => {
        impl serde::Serialize for $t {
            fn serialize<S: serde::Serializer>(&self, s: S) -> Result<S::Ok, S::Error> {
                s.serialize_u32(KeyT::id(self))
            }
        }
        impl<'de> serde::Deserialize<'de> for $t {
            fn deserialize<D: serde::Deserializer<'de>>(d: D) -> Result<Self, D::Error> {
                let id = <u32 as serde::Deserialize>::deserialize(d)?;
                Ok(<$t as KeyT>::make(id % <$t as KeyT>::UNIVERSE))
            }
        }
    };
}
macro_rules! serde_val {
    ($t:ty) => {
        impl serde::Serialize for $t {
            fn serialize<S: serde::Serializer>(&self, s: S) -> Result<S::Ok, S::Error> {
                s.serialize_u32(ValT::val(self))
            }
        }
        impl<'de> serde::Deserialize<'de> for $t {
            fn deserialize<D: serde::Deserializer<'de>>(d: D) -> Result<Self, D::Error> {
                let v = <u32 as serde::Deserialize>::deserialize(d)?;
                Ok(<$t as ValT>::make(v))
            }
        }
    };
}
serde_key!(Key8);
serde_key!(PodKey);
serde_key!(KeyU8);
serde_key!(KeyU16);
serde_key!(Key24);
serde_key!(KeyZ);
serde_val!(Val8);
serde_val!(P4);
serde_val!(Big200);
serde_val!(Align64);
serde_val!(Align128);
