//! Executes runs: online generation + execution, exact replay of a recorded scenario, the
//! fault-enumeration driver, and the worker loop with its statistics.

use crate::ctx::Kmv;
use crate::elem::*;
use crate::gen::RunSpec;
use crate::mapw::MapWorld;
use crate::tablew::TableWorld;
use crate::setw::SetWorld;
use crate::profiles;
use crate::rng::{mix3, tag_of, Digest, Rng};
use crate::scenario::{Config, Fault, Op, Scenario, Violation};
use crate::state::{self, sim, Class, ALL_CLASSES, NCLASS, NPROBE, PROBE_NAMES};
use crate::world::World;
use serde_json::json;
use std::collections::BTreeMap;
use std::io::Write;

pub struct RunResult {
    pub violation: Option<Violation>,
    pub scenario: Scenario,
    pub digest: u64,
    pub sig: u64,
    pub nontrivial: bool,
    pub states: Vec<u64>,
    pub ops: u64,
    pub callbacks: u64,
    /// per operation: callback counts of its main call and number of allocator calls
    pub op_counts: Vec<([u32; NCLASS], u32)>,
    pub fault_fired: bool,
    pub transcript: u64,
}

/// Totals copied out of the global state at the end of a run.
#[derive(Default, Clone)]
pub struct Totals {
    pub probes: Vec<u64>,
    pub fired: [u64; NCLASS],
    pub callbacks: [u64; NCLASS],
    pub refused: u64,
    pub alloc_calls: u64,
    pub created: u64,
}

fn with_world<R>(name: &str, cfg: Config, f: impl FnOnce(&mut dyn World) -> R) -> Option<R> {
    macro_rules! go {
        ($w:expr) => {{
            let mut w = $w;
            let r = f(&mut w);
            // A world that reported a violation may be corrupt: never run its destructors.
            std::mem::forget(w);
            Some(r)
        }};
    }
    match name {
        "M16" => go!(MapWorld::<Key8, Val8>::new(cfg)),
        "Mpod" => go!(MapWorld::<PodKey, u32>::new(cfg)),
        "M208" => go!(MapWorld::<Key8, Big200>::new(cfg)),
        "M64a" => go!(MapWorld::<Key8, Align64>::new(cfg)),
        "M128a" => go!(MapWorld::<Key8, crate::elem::Align128>::new(cfg)),
        "Mz" => go!(MapWorld::<Key8, ()>::new(cfg)),
        "Ms" => go!(MapWorld::<crate::elem::KeyS, Val8>::new(cfg)),
        "M5" => go!(MapWorld::<KeyU8, P4>::new(cfg)),
        "M6" => go!(MapWorld::<KeyU16, P4>::new(cfg)),
        "Sz" => go!(SetWorld::<KeyZ>::new(cfg)),
        "Mzz" => go!(MapWorld::<KeyZ, ()>::new(cfg)),
        "S1" => go!(SetWorld::<KeyU8>::new(cfg)),
        "S2" => go!(SetWorld::<KeyU16>::new(cfg)),
        "S8" => go!(SetWorld::<Key8>::new(cfg)),
        "S24" => go!(SetWorld::<Key24>::new(cfg)),
        "Ss" => go!(SetWorld::<crate::elem::KeyS>::new(cfg)),
        "Sp" => go!(SetWorld::<PodKey>::new(cfg)),
        "T24" => go!(TableWorld::<Elem24>::new(cfg)),
        "Tzd" => go!(TableWorld::<ZstDrop>::new(cfg)),
        "Tzp" => go!(TableWorld::<ZstPod>::new(cfg)),
        "Tza" => go!(TableWorld::<ZstAlign>::new(cfg)),
        _ => None,
    }
}

pub struct Trace {
    pub file: std::fs::File,
}
impl Trace {
    fn begin(&mut self, prop: &str, world: &str, seed: u64, cfg: &Config) {
        let _ = writeln!(self.file, "BEGIN {}", json!({"property": prop, "world": world, "seed": seed, "cfg": cfg}));
        let _ = self.file.flush();
    }
    fn op(&mut self, op: &Op) {
        let _ = writeln!(self.file, "OP {}", serde_json::to_string(op).unwrap());
        let _ = self.file.flush();
    }
}

fn finish_run(w: &mut dyn World, violation: Option<Violation>, scenario: Scenario, op_counts: Vec<([u32; NCLASS], u32)>) -> RunResult {
    let violation = match violation {
        Some(v) => Some(v),
        None => w.finish().err(),
    };
    let ctx = w.ctx();
    let mut dg = ctx.sig;
    let sd = sim().digest;
    dg.add(sd.0);
    dg.add(ctx.ops_executed);
    dg.add(ctx.callbacks);
    for &s in &ctx.states {
        dg.add(s);
    }
    if let Some(v) = &violation {
        dg.add_str(&v.class);
    }
    RunResult {
        violation,
        scenario,
        digest: dg.0,
        sig: ctx.sig.0,
        nontrivial: ctx.nontrivial,
        states: std::mem::take(&mut ctx.states),
        ops: ctx.ops_executed,
        callbacks: ctx.callbacks,
        op_counts,
        fault_fired: ctx.last_fired.is_some() || ctx.drop_fault_fired,
        transcript: ctx.transcript.0,
    }
}

fn prepare(cfg: &Config) {
    state::reset();
    let mut s = sim();
    s.eq_mode = cfg.eq_mode;
    s.byz_rng = Rng::new(cfg.byz_seed);
    s.exact_align = cfg.exact_align;
}

/// Generates and executes one run online. The recorded scenario replays exactly.
pub fn run_generated(prop: &str, spec: RunSpec, seed: u64, rng: &mut Rng, mut trace: Option<&mut Trace>, prefix: Option<&Scenario>) -> RunResult {
    let RunSpec { mut world, mut cfg, mut gen, mut n_ops } = spec;
    // corpus-seeded run: start from the state a recorded scenario reaches, then keep generating
    let mut prefix_ops: Vec<Op> = Vec::new();
    if let Some(p) = prefix {
        world = p.world.clone();
        let keep = (cfg.callback_cap, cfg.churn_bound, cfg.group_monitor);
        cfg = p.cfg.clone();
        cfg.callback_cap = cfg.callback_cap.max(keep.0);
        cfg.group_monitor = cfg.group_monitor || keep.2;
        prefix_ops = p.ops.iter().cloned().map(|mut o| { o.f = None; o }).collect();
        n_ops = prefix_ops.len() + n_ops.min(60);
    }
    prepare(&cfg);
    if let Some(t) = trace.as_deref_mut() {
        t.begin(prop, &world, seed, &cfg);
    }
    let scenario = Scenario { property: prop.to_string(), world: world.clone(), seed, cfg: cfg.clone(), ops: Vec::new() };
    with_world(&world, cfg, move |w| {
        let mut scenario = scenario;
        let mut op_counts = Vec::new();
        let mut violation = None;
        for i in 0..n_ops {
            let op = if i < prefix_ops.len() {
                prefix_ops[i].clone()
            } else {
                let view = w.view();
                gen.next(rng, &view)
            };
            if let Some(t) = trace.as_deref_mut() {
                t.op(&op);
            }
            scenario.ops.push(op.clone());
            let r = w.exec(i, &op);
            let c = w.ctx();
            op_counts.push((c.main_counts, c.main_alloc_calls));
            if let Err(v) = r {
                violation = Some(v);
                break;
            }
        }
        finish_run(w, violation, scenario, op_counts)
    })
    .unwrap_or_else(|| panic!("unknown world {world}"))
}

/// Re-executes a recorded scenario exactly.
pub fn replay(sc: &Scenario) -> RunResult {
    prepare(&sc.cfg);
    let scn = sc.clone();
    with_world(&sc.world, sc.cfg.clone(), move |w| {
        let mut op_counts = Vec::new();
        let mut violation = None;
        for (i, op) in scn.ops.iter().enumerate() {
            let r = w.exec(i, op);
            let c = w.ctx();
            op_counts.push((c.main_counts, c.main_alloc_calls));
            if let Err(v) = r {
                violation = Some(v);
                break;
            }
        }
        finish_run(w, violation, scn, op_counts)
    })
    .unwrap_or_else(|| panic!("unknown world {}", sc.world))
}

fn take_totals(t: &mut Totals) {
    let s = sim();
    if t.probes.is_empty() {
        t.probes = vec![0; NPROBE];
    }
    for i in 0..NPROBE {
        t.probes[i] += s.probes[i];
    }
    for i in 0..NCLASS {
        t.fired[i] += s.fired_counts[i];
        t.callbacks[i] += s.total_counts[i];
    }
    t.refused += s.refused_total;
    t.alloc_calls += s.alloc_calls;
    t.created += s.created;
}

pub struct WorkerOpts {
    pub prop: String,
    pub thorough: bool,
    pub seed_base: u64,
    pub from: u64,
    pub count: u64,
    pub progress: Option<String>,
    pub trace: Option<String>,
    pub digests: bool,
    pub max_violations: usize,
    pub budget_s: f64,
    /// write every generated scenario and its transcript digest to this file (C18, first build)
    pub emit: Option<String>,
    /// replay the scenarios of this file instead of generating (C18, second build)
    pub batch: Option<String>,
    /// directory of recorded scenarios of this property: every sixth run starts from one of them
    pub corpus: Option<String>,
}

fn cpu_seconds() -> f64 {
    // utime + stime from /proc/self/stat, in clock ticks (100 Hz on Linux)
    if let Ok(s) = std::fs::read_to_string("/proc/self/stat") {
        if let Some(p) = s.rfind(')') {
            let f: Vec<&str> = s[p + 2..].split_whitespace().collect();
            if f.len() > 13 {
                let u: f64 = f[11].parse().unwrap_or(0.0);
                let k: f64 = f[12].parse().unwrap_or(0.0);
                return (u + k) / 100.0;
            }
        }
    }
    0.0
}

/// Which runs does a property's check perform per seed?
fn fault_enumerating(prop: &str) -> bool {
    prop == "C04"
}

pub fn worker(o: WorkerOpts) -> i32 {
    use std::sync::atomic::{AtomicU64, Ordering};
    use std::sync::Arc;
    let current = Arc::new(AtomicU64::new(u64::MAX));
    // CPU-time watchdog: a run that burns more than 20 s of CPU is a non-termination verdict.
    if !cfg!(miri) {
        let current = current.clone();
        std::thread::spawn(move || {
            let mut last = (u64::MAX, 0.0f64);
            loop {
                std::thread::sleep(std::time::Duration::from_millis(500));
                // progress = (run index, guarded calls made): a single call into hashbrown that burns
                // 20 s of CPU is the verdict, not a long run
                let c = current.load(Ordering::Relaxed);
                let hb = crate::state::HEARTBEAT.load(Ordering::Relaxed);
                let c = if c == u64::MAX { c } else { c.wrapping_mul(0x9E37_79B9_7F4A_7C15) ^ hb };
                let cpu = cpu_seconds();
                if c != last.0 {
                    last = (c, cpu);
                } else if c != u64::MAX && cpu - last.1 > 20.0 {
                    println!("HANG {}", current.load(Ordering::Relaxed));
                    let _ = std::io::stdout().flush();
                    std::process::exit(3);
                }
            }
        });
    }
    let mut progress = o.progress.as_ref().map(|p| std::fs::OpenOptions::new().create(true).write(true).truncate(true).open(p).expect("progress file"));
    let mut trace = o.trace.as_ref().map(|p| Trace { file: std::fs::File::create(p).expect("trace file") });
    let tag = tag_of(&o.prop);
    let mut totals = Totals::default();
    let mut runs = 0u64;
    let mut executions = 0u64;
    let mut ops = 0u64;
    let mut callbacks = 0u64;
    let mut nontrivial = 0u64;
    let mut sig_kmv = Kmv::default();
    let mut state_kmv = Kmv::default();
    let mut violations: Vec<serde_json::Value> = Vec::new();
    let mut foreign: BTreeMap<String, u64> = BTreeMap::new();
    let mut foreign_samples: Vec<serde_json::Value> = Vec::new();
    let mut samples: Vec<serde_json::Value> = Vec::new();
    let mut digests: Vec<(u64, u64)> = Vec::new();
    let mut digest_all = Digest::new();
    let mut len_hist = [0u64; 8];
    let mut worlds: BTreeMap<String, u64> = BTreeMap::new();
    let mut enum_targets = 0u64;
    let mut enum_execs = 0u64;
    let t0 = std::time::Instant::now();
    let mut truncated = false;

    let mut account = |res: &RunResult, totals: &mut Totals, sig_kmv: &mut Kmv, state_kmv: &mut Kmv| {
        take_totals(totals);
        if res.nontrivial {
            sig_kmv.add(res.sig);
        }
        for &s in &res.states {
            state_kmv.add(s);
        }
    };

    let batch: Option<Vec<(u64, Scenario, u64)>> = o.batch.as_ref().map(|p| {
        std::fs::read_to_string(p)
            .expect("batch file")
            .lines()
            .filter(|l| !l.trim().is_empty())
            .map(|l| {
                let v: serde_json::Value = serde_json::from_str(l).expect("batch line");
                let sc: Scenario = serde_json::from_value(v["scenario"].clone()).expect("scenario");
                let t = u64::from_str_radix(v["transcript"].as_str().unwrap_or("0"), 16).unwrap_or(0);
                (v["i"].as_u64().unwrap_or(0), sc, t)
            })
            .collect()
    });
    let corpus: Vec<Scenario> = o
        .corpus
        .as_ref()
        .map(|d| {
            let mut files: Vec<_> = std::fs::read_dir(d).map(|r| r.filter_map(|e| e.ok()).map(|e| e.path()).collect()).unwrap_or_default();
            files.sort();
            files
                .iter()
                .filter_map(|f| std::fs::read_to_string(f).ok())
                .filter_map(|t| serde_json::from_str::<serde_json::Value>(&t).ok())
                .filter_map(|v| serde_json::from_value::<Scenario>(v["scenario"].clone()).ok())
                .collect()
        })
        .unwrap_or_default();
    let mut corpus_runs = 0u64;
    let mut emit = o.emit.as_ref().map(|p| std::io::BufWriter::new(std::fs::File::create(p).expect("emit file")));
    let indices: Vec<u64> = match &batch {
        Some(b) => b.iter().map(|x| x.0).collect(),
        None => (o.from..o.from + o.count).collect(),
    };
    for (pos, i) in indices.into_iter().enumerate() {
        if o.budget_s > 0.0 && t0.elapsed().as_secs_f64() > o.budget_s {
            truncated = true;
            break;
        }
        current.store(i, Ordering::Relaxed);
        if let Some(f) = progress.as_mut() {
            use std::os::unix::fs::FileExt;
            let _ = f.write_at(&i.to_le_bytes(), 0);
        }
        let seed = mix3(o.seed_base, tag, i);
        let mut rng = Rng::new(seed);
        let mut res = match &batch {
            Some(b) => {
                // differential replay: the same scenario under this build must give the same transcript
                let (_, sc, want) = &b[pos];
                if let Some(t) = trace.as_mut() {
                    t.begin(&sc.property, &sc.world, sc.seed, &sc.cfg);
                    for op in &sc.ops {
                        t.op(op);
                    }
                }
                let mut r = replay(sc);
                // (HashTable histories with duplicates and partly consumed iterators legitimately depend on the bucket
                // layout: for them the replay under this build is judged by the model alone)
                if r.violation.is_none() && r.transcript != *want && !sc.world.starts_with('T') {
                    r.violation = Some(Violation {
                        class: "differential/transcript".into(),
                        op_index: sc.ops.len().saturating_sub(1),
                        op_kind: "Finish".into(),
                        detail: format!("transcript of content-semantic observables {:016x} under group width {} differs from {:016x} recorded by the other back-end", r.transcript, hashbrown::verif::verif_group_width(), want),
                    });
                }
                r
            }
            None => {
                let mut spec = profiles::spec_for(&o.prop, o.thorough, &mut rng);
                let mut prefix = None;
                if !corpus.is_empty() && i % 6 == 5 {
                    let p = &corpus[((i / 6) as usize) % corpus.len()];
                    let fam = |w: &str| w.chars().next().unwrap_or('M');
                    // the generator must speak the recorded world's family
                    for _ in 0..24 {
                        if fam(&spec.world) == fam(&p.world) {
                            break;
                        }
                        spec = profiles::spec_for(&o.prop, o.thorough, &mut rng);
                    }
                    if fam(&spec.world) == fam(&p.world) {
                        prefix = Some(p);
                        corpus_runs += 1;
                    }
                }
                run_generated(&o.prop, spec, seed, &mut rng, trace.as_mut(), prefix)
            }
        };
        if let Some(f) = emit.as_mut() {
            if res.violation.is_none() {
                let _ = writeln!(f, "{}", json!({"i": i, "scenario": res.scenario, "transcript": format!("{:016x}", res.transcript)}));
            }
        }
        let _ = &mut res;
        runs += 1;
        executions += 1;
        ops += res.ops;
        callbacks += res.callbacks;
        if res.nontrivial {
            nontrivial += 1;
        }
        account(&res, &mut totals, &mut sig_kmv, &mut state_kmv);
        *worlds.entry(res.scenario.world.clone()).or_insert(0) += 1;
        let lb = (usize::BITS - res.scenario.ops.len().leading_zeros()).min(7) as usize;
        len_hist[lb] += 1;
        digest_all.add(res.digest);
        if o.digests {
            digests.push((i, res.digest));
        }
        if samples.len() < 2 && res.scenario.ops.len() <= 40 && res.nontrivial {
            samples.push(json!({"seed_index": i, "scenario": res.scenario}));
        }
        let expect: Option<u64> = batch.as_ref().map(|b| b[pos].2);
        let mut report = |v: &Violation, sc: &Scenario, violations: &mut Vec<serde_json::Value>| {
            if profiles::owns(&o.prop, v) {
                if violations.len() < o.max_violations {
                    violations.push(json!({"seed_index": i, "seed": seed, "violation": v, "scenario": sc, "expect_transcript": expect.map(|t| format!("{:016x}", t))}));
                }
            } else {
                *foreign.entry(v.class.clone()).or_insert(0) += 1;
                if foreign_samples.len() < 3 {
                    foreign_samples.push(json!({"seed_index": i, "violation": v, "scenario": sc}));
                }
            }
        };
        if let Some(v) = &res.violation {
            let mut sc = res.scenario.clone();
            if !v.class.starts_with("differential/") {
                sc.ops.truncate(v.op_index.saturating_add(1).min(sc.ops.len()));
            }
            report(v, &sc, &mut violations);
        } else if fault_enumerating(&o.prop) {
            // Fault enumeration: re-execute the recorded scenario with the k-th callback of a class
            // panicking inside a target operation, for every k (thorough) or a sample (quick).
            // (under Miri every re-execution costs seconds: the sampled form is used there in both tiers)
            let exhaustive = o.thorough && !cfg!(miri);
            let targets = pick_targets(&res, &mut rng, if exhaustive { 6 } else { 3 });
            for (j, class, n) in targets {
                enum_targets += 1;
                let ks: Vec<u32> = if exhaustive || n <= 4 {
                    (1..=n).collect()
                } else {
                    let mut v = vec![1, 2, n, n - 1, 1 + rng.below(n as u64) as u32, 1 + rng.below(n as u64) as u32];
                    v.sort();
                    v.dedup();
                    v
                };
                let mut stop = false;
                for k in ks {
                    let mut sc = res.scenario.clone();
                    sc.ops[j].f = Some(Fault { c: class, k });
                    if let Some(t) = trace.as_mut() {
                        t.begin(&sc.property, &sc.world, sc.seed, &sc.cfg);
                        for op in &sc.ops {
                            t.op(op);
                        }
                    }
                    let r2 = replay(&sc);
                    executions += 1;
                    enum_execs += 1;
                    ops += r2.ops;
                    callbacks += r2.callbacks;
                    account(&r2, &mut totals, &mut sig_kmv, &mut state_kmv);
                    digest_all.add(r2.digest);
                    if r2.nontrivial {
                        nontrivial += 1;
                    }
                    if let Some(v) = &r2.violation {
                        let mut sc2 = sc.clone();
                        sc2.ops.truncate(v.op_index.saturating_add(1).min(sc2.ops.len()));
                        report(v, &sc2, &mut violations);
                        stop = true;
                        break;
                    }
                }
                if stop {
                    break;
                }
            }
        }
        if violations.len() >= o.max_violations {
            break;
        }
    }
    current.store(u64::MAX, Ordering::Relaxed);
    let probes: BTreeMap<&str, u64> = PROBE_NAMES.iter().enumerate().map(|(i, n)| (*n, totals.probes.get(i).copied().unwrap_or(0))).filter(|x| x.1 > 0).collect();
    let fired: BTreeMap<&str, u64> = ALL_CLASSES.iter().map(|c| (c.name(), totals.fired[*c as usize])).collect();
    let cbs: BTreeMap<&str, u64> = ALL_CLASSES.iter().map(|c| (c.name(), totals.callbacks[*c as usize])).collect();
    let out = json!({
        "prop": o.prop,
        "from": o.from,
        "count": o.count,
        "runs": runs,
        "executions": executions,
        "ops": ops,
        "callbacks": callbacks,
        "nontrivial_runs": nontrivial,
        "sig_kmv": sig_kmv.set.iter().collect::<Vec<_>>(),
        "state_kmv": state_kmv.set.iter().collect::<Vec<_>>(),
        "violations": violations,
        "foreign": foreign,
        "foreign_samples": foreign_samples,
        "samples": samples,
        "probes": probes,
        "faults_fired": fired,
        "callbacks_by_class": cbs,
        "refusals": totals.refused,
        "alloc_calls": totals.alloc_calls,
        "elements_created": totals.created,
        "len_hist": len_hist,
        "worlds": worlds,
        "digest": format!("{:016x}", digest_all.0),
        "digests": digests.iter().map(|(i, d)| json!([i, format!("{:016x}", d)])).collect::<Vec<_>>(),
        "corpus_seeded_runs": corpus_runs,
        "enum_targets": enum_targets,
        "enum_execs": enum_execs,
        "truncated": truncated,
        "width": hashbrown::verif::verif_group_width(),
        "wall_s": t0.elapsed().as_secs_f64(),
    });
    println!("SUMMARY {}", out);
    let _ = std::io::stdout().flush();
    0
}

/// Chooses (operation index, callback class, number of invocations) targets for fault enumeration:
/// half of them biased to operations that re-hashed stored elements or called the allocator.
fn pick_targets(res: &RunResult, rng: &mut Rng, n: usize) -> Vec<(usize, Class, u32)> {
    let mut cands: Vec<(usize, Class, u32, bool)> = Vec::new();
    for (j, (counts, allocs)) in res.op_counts.iter().enumerate() {
        for c in ALL_CLASSES {
            let k = counts[c as usize];
            if k > 0 {
                let hot = *allocs > 0 || (c == Class::Hash && k > 1) || matches!(c, Class::Clone | Class::Drop | Class::Pred | Class::Iter);
                cands.push((j, c, k, hot));
            }
        }
    }
    let mut out = Vec::new();
    if cands.is_empty() {
        return out;
    }
    let hot: Vec<_> = cands.iter().filter(|c| c.3).cloned().collect();
    // operations that re-hashed stored elements without calling the allocator rehashed in place: the
    // rarest growth path always gets a target of its own when the run reached it
    use crate::scenario::Kd;
    let inplace: Vec<_> = cands
        .iter()
        .filter(|c| c.1 == Class::Hash && c.2 > 2 && res.op_counts[c.0].1 == 0 && matches!(res.scenario.ops[c.0].k, Kd::Insert | Kd::TryInsert | Kd::Entry | Kd::TInsertUnique | Kd::TEntry | Kd::Replace | Kd::GetOrInsert | Kd::GetOrInsertWith | Kd::Reserve | Kd::Extend | Kd::FillNoAlloc | Kd::SetOpAssign))
        .cloned()
        .collect();
    if !inplace.is_empty() {
        let c = rng.pick(&inplace);
        out.push((c.0, c.1, c.2.min(400)));
    }
    for t in 0..n {
        let pool = if t % 2 == 0 && !hot.is_empty() { &hot } else { &cands };
        let c = rng.pick(pool);
        if !out.iter().any(|o: &(usize, Class, u32)| o.0 == c.0 && o.1 == c.1) {
            out.push((c.0, c.1, c.2.min(400)));
        }
    }
    out
}
