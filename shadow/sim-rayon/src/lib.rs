//! sim-rayon: re-exports the real rayon wholesale and shadows exactly one item,
//! `iter::plumbing::bridge_unindexed`, with a bridge the simulator owns (seam S7).
//!
//! hashbrown's `drive_unindexed` implementations hand their real producers and the real rayon
//! consumer to this bridge. The bridge builds the split tree from a recorded decision list: at
//! every step it picks one pending subtree (any order = any steal/worker order) and decides whether
//! that node splits or is folded to completion. No threads are involved, so a decision list is an
//! exactly repeatable schedule. A leaf that panics is handled as rayon's `join` does: all other
//! pending subtrees still run, then the first payload is resumed.

pub use rayon_real::*;

pub mod sim {
    use std::sync::Mutex;

    #[derive(Default, Debug, Clone)]
    pub struct Stats {
        pub bridges: u64,
        pub splits: u64,
        pub leaves: u64,
        pub max_depth: u32,
        pub out_of_order: u64,
        pub full_at_node: u64,
        pub leaf_panics: u64,
        pub decisions_used: u64,
        /// digest of the split-tree shape and leaf execution order
        pub shape: u64,
    }

    pub struct Sched {
        pub enabled: bool,
        pub decisions: Vec<u64>,
        pub pos: usize,
        /// 0: every node decides freely; n > 0: rayon-like split budget of a pool with n threads
        pub pool: u32,
        pub stats: Stats,
    }

    pub static SCHED: Mutex<Sched> = Mutex::new(Sched { enabled: false, decisions: Vec::new(), pos: 0, pool: 0, stats: Stats { bridges: 0, splits: 0, leaves: 0, max_depth: 0, out_of_order: 0, full_at_node: 0, leaf_panics: 0, decisions_used: 0, shape: 0 } });

    fn lock() -> std::sync::MutexGuard<'static, Sched> {
        SCHED.lock().unwrap_or_else(|e| e.into_inner())
    }

    /// Installs a schedule: every `bridge_unindexed` from now on is driven by `decisions`.
    pub fn install(decisions: Vec<u64>, pool: u32) {
        let mut s = lock();
        s.enabled = true;
        s.decisions = decisions;
        s.pos = 0;
        s.pool = pool;
        s.stats = Stats::default();
    }

    /// Removes the schedule (the real rayon bridge is used again) and returns what happened.
    pub fn uninstall() -> Stats {
        let mut s = lock();
        s.enabled = false;
        s.decisions.clear();
        std::mem::take(&mut s.stats)
    }

    pub fn enabled() -> bool {
        lock().enabled
    }

    pub(crate) fn pool() -> u32 {
        lock().pool
    }

    /// Next decision in 0..n (0 when the list is exhausted).
    pub(crate) fn decide(n: usize) -> usize {
        let mut s = lock();
        let d = s.decisions.get(s.pos).copied().unwrap_or(0);
        s.pos += 1;
        s.stats.decisions_used += 1;
        if n == 0 {
            0
        } else {
            (d % n as u64) as usize
        }
    }

    pub(crate) fn note(f: impl FnOnce(&mut Stats)) {
        f(&mut lock().stats)
    }
}

pub mod iter {
    pub use rayon_real::iter::*;

    pub mod plumbing {
        pub use rayon_real::iter::plumbing::*;
        use std::panic::{catch_unwind, resume_unwind, AssertUnwindSafe};

        enum Node<P, C, R, Rd> {
            Pending(P, C, u32, u32),
            Split(Rd, usize, usize),
            Done(R),
            Failed,
            Taken,
        }

        fn mix(h: u64, x: u64) -> u64 {
            let mut z = (h ^ x).wrapping_add(0x9E37_79B9_7F4A_7C15);
            z = (z ^ (z >> 30)).wrapping_mul(0xBF58_476D_1CE4_E5B9);
            z ^ (z >> 27)
        }

        /// The simulator-owned variant of rayon's `bridge_unindexed`.
        pub fn bridge_unindexed<P, C>(producer: P, consumer: C) -> C::Result
        where
            P: UnindexedProducer,
            C: UnindexedConsumer<P::Item>,
        {
            if !crate::sim::enabled() {
                return rayon_real::iter::plumbing::bridge_unindexed(producer, consumer);
            }
            let pool = crate::sim::pool();
            crate::sim::note(|s| s.bridges += 1);
            let mut nodes: Vec<Node<P, C, C::Result, C::Reducer>> = vec![Node::Pending(producer, consumer, 0, pool)];
            let mut pending: Vec<usize> = vec![0];
            let mut first_panic: Option<Box<dyn std::any::Any + Send>> = None;
            let mut shape: u64 = 0;
            while !pending.is_empty() {
                // any pending subtree may run next: the choice models worker and steal order
                let pick = crate::sim::decide(pending.len());
                if pick + 1 != pending.len() {
                    crate::sim::note(|s| s.out_of_order += 1);
                }
                let idx = pending.remove(pick);
                let (p, c, depth, budget) = match std::mem::replace(&mut nodes[idx], Node::Taken) {
                    Node::Pending(p, c, d, b) => (p, c, d, b),
                    _ => unreachable!(),
                };
                shape = mix(shape, idx as u64);
                if c.full() {
                    // as rayon does: complete the consumer, the producer is dropped unconsumed
                    crate::sim::note(|s| s.full_at_node += 1);
                    let r = catch_unwind(AssertUnwindSafe(move || {
                        let r = c.into_folder().complete();
                        drop(p);
                        r
                    }));
                    nodes[idx] = match r {
                        Ok(v) => Node::Done(v),
                        Err(e) => {
                            first_panic.get_or_insert(e);
                            Node::Failed
                        }
                    };
                    continue;
                }
                let want_split = if pool == 0 { crate::sim::decide(3) != 0 } else { budget > 0 };
                if want_split {
                    match catch_unwind(AssertUnwindSafe(move || p.split())) {
                        Ok((left, Some(right))) => {
                            crate::sim::note(|s| {
                                s.splits += 1;
                                s.max_depth = s.max_depth.max(depth + 1);
                            });
                            shape = mix(shape, 0x5B11);
                            let reducer = c.to_reducer();
                            let left_consumer = c.split_off_left();
                            // a "stolen" half gets a fresh budget, as rayon's adaptive splitter does
                            let lb = budget / 2;
                            let rb = if pool > 0 && crate::sim::decide(4) == 0 { pool } else { budget / 2 };
                            let li = nodes.len();
                            nodes.push(Node::Pending(left, left_consumer, depth + 1, lb));
                            nodes.push(Node::Pending(right, c, depth + 1, rb));
                            nodes[idx] = Node::Split(reducer, li, li + 1);
                            pending.push(li + 1);
                            pending.push(li);
                            continue;
                        }
                        Ok((left, None)) => {
                            run_leaf(&mut nodes, idx, left, c, &mut first_panic);
                            shape = mix(shape, 0x1EAF);
                            continue;
                        }
                        Err(e) => {
                            first_panic.get_or_insert(e);
                            nodes[idx] = Node::Failed;
                            continue;
                        }
                    }
                }
                run_leaf(&mut nodes, idx, p, c, &mut first_panic);
                shape = mix(shape, 0x1EAF);
            }
            crate::sim::note(|s| s.shape = mix(s.shape, shape));
            if let Some(e) = first_panic {
                drop(nodes);
                resume_unwind(e);
            }
            reduce(&mut nodes, 0)
        }

        fn run_leaf<P, C>(nodes: &mut [Node<P, C, C::Result, C::Reducer>], idx: usize, p: P, c: C, first_panic: &mut Option<Box<dyn std::any::Any + Send>>)
        where
            P: UnindexedProducer,
            C: UnindexedConsumer<P::Item>,
        {
            crate::sim::note(|s| s.leaves += 1);
            let r = catch_unwind(AssertUnwindSafe(move || p.fold_with(c.into_folder()).complete()));
            nodes[idx] = match r {
                Ok(v) => Node::Done(v),
                Err(e) => {
                    crate::sim::note(|s| s.leaf_panics += 1);
                    first_panic.get_or_insert(e);
                    Node::Failed
                }
            };
        }

        fn reduce<P, C>(nodes: &mut Vec<Node<P, C, C::Result, C::Reducer>>, idx: usize) -> C::Result
        where
            P: UnindexedProducer,
            C: UnindexedConsumer<P::Item>,
        {
            match std::mem::replace(&mut nodes[idx], Node::Taken) {
                Node::Done(r) => r,
                Node::Split(reducer, l, r) => {
                    let lv = reduce(nodes, l);
                    let rv = reduce(nodes, r);
                    reducer.reduce(lv, rv)
                }
                _ => unreachable!("bridge node {idx} has no result"),
            }
        }
    }
}
