//! Placeholder: re-exports rayon; the simulator-owned bridge is added with C19.
pub use rayon_real::*;
