// Emits the hook guard, and (HBSIM_GROUP=generic) cfg(miri) for this crate only, which makes
// src/control/group/mod.rs select the portable 8-byte scanner on x86-64.
fn main() {
    println!("cargo:rerun-if-env-changed=HBSIM_GROUP");
    println!("cargo:rustc-check-cfg=cfg(hashbrown_verif)");
    println!("cargo:rustc-cfg=hashbrown_verif");
    if std::env::var("HBSIM_GROUP").ok().as_deref() == Some("generic") {
        println!("cargo:rustc-cfg=miri");
    }
}
